#!/bin/bash
# Builds the harness from files on disk only (offline). Warms Go's build cache.
set -e
cd "$(dirname "$0")"
export GOFLAGS=-mod=mod GOPROXY=off GOSUMDB=off GOTOOLCHAIN=local
mkdir -p .bin evidence replays
cd harness
cp /repo/go.sum go.sum 2>/dev/null || true
go build -tags verif -o ../.bin/verif ./cmd/verif
