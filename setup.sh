#!/bin/bash
# Builds the harness from files on disk only (offline). Warms Go's build cache.
set -e
cd "$(dirname "$0")"
export GOFLAGS=-mod=mod GOPROXY=off GOSUMDB=off GOTOOLCHAIN=local
mkdir -p .bin evidence replays
cd harness
cp /repo/go.sum go.sum 2>/dev/null || true
go build -tags verif -o ../.bin/verif ./cmd/verif
# the race-detector build used by C19 (warms the -race build cache; a failure here is not fatal:
# ./check C19 builds it again and reports a failing build as inconclusive)
go build -race -tags verif -o ../.bin/verif-race ./cmd/verif || true
