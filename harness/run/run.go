// Package run is the scenario runner: job planning, worker sub-processes, merging, known findings,
// evidence files and the VIOLATION / KNOWN-FINDING / INCONCLUSIVE protocol.
package run

import (
	"encoding/json"
	"fmt"
	"os"
	"os/exec"
	"path/filepath"
	"regexp"
	"runtime"
	"sort"
	"strings"
	"sync"
	"time"

	"verifharness/chain"
	"verifharness/mon"
)

// Job is one scenario execution.
type Job struct {
	Prop     string `json:"prop"`
	Scenario string `json:"scenario"`
	Index    int    `json:"index"`
	Seed     int64  `json:"seed"`
	Tier     string `json:"tier"`
}

func (j Job) String() string {
	return fmt.Sprintf("%s/%s#%d seed=%d tier=%s", j.Prop, j.Scenario, j.Index, j.Seed, j.Tier)
}

// Sub returns a deterministic sub-seed.
func (j Job) Sub(k int64) int64 { return j.Seed*1000003 + int64(j.Index)*7919 + k }

// Ctx is handed to a scenario function.
type Ctx struct {
	Job          Job
	World        *chain.World
	Mons         []mon.Monitor
	Events       map[string]int64
	Inconclusive string
	Worlds       []*chain.World
	ExtraViol    []chain.Violation
	Extra        map[string]interface{}
}

func (c *Ctx) Ev(name string)           { c.Events[name]++ }
func (c *Ctx) EvN(name string, n int64) { c.Events[name] += n }
func (c *Ctx) Quick() bool              { return c.Job.Tier == "quick" }
func (c *Ctx) N(quick, thorough int) int {
	if c.Quick() {
		return quick
	}
	return thorough
}

// Attach installs the monitors of the job's property on a world.
func (c *Ctx) Attach(w *chain.World) {
	c.World = w
	c.Worlds = append(c.Worlds, w)
	for _, m := range c.Mons {
		w.AddProbe(m)
	}
	if AttachHook != nil {
		AttachHook(w)
	}
}

// AttachHook, if set, is called for every world a scenario attaches (development aid).
var AttachHook func(w *chain.World)

// Require records a coverage floor: if cond is false the scenario is inconclusive.
func (c *Ctx) Require(cond bool, what string) {
	if !cond && c.Inconclusive == "" {
		c.Inconclusive = "coverage floor not reached: " + what
	}
}

type Scenario struct {
	Name string
	Run  func(c *Ctx)
}

var Scenarios = map[string]*Scenario{}

// DebugHook, if set, is called after a scenario finished (development aid).
var DebugHook func(c *Ctx)

func Register(name string, f func(c *Ctx)) { Scenarios[name] = &Scenario{Name: name, Run: f} }

// PropSpec describes how a property is checked.
type PropSpec struct {
	ID          string
	Level       string // evidence level
	Rule        string // how cases are generated and what makes one distinct / non-trivial
	Monitors    func() []mon.Monitor
	Plan        func(tier string) []PlanItem
	Assume      []string
	MinDistinct int64
}

type PlanItem struct {
	Scenario string
	Count    int
}

var Props = map[string]*PropSpec{}

// MonStat is the serialisable part of a monitor's Stats.
type MonStat struct {
	Prop        string           `json:"prop"`
	Evaluations int64            `json:"evaluations"`
	Distinct    []uint64         `json:"distinct"`
	Samples     []interface{}    `json:"samples"`
	Events      map[string]int64 `json:"events"`
}

// Result is what a worker writes.
type Result struct {
	Job          Job                    `json:"job"`
	Violations   []chain.Violation      `json:"violations"`
	NViolations  int                    `json:"n_violations"`
	Stats        []MonStat              `json:"stats"`
	Events       map[string]int64       `json:"events"`
	Blocks       int64                  `json:"blocks"`
	TxOK         map[string]int         `json:"tx_ok"`
	TxFail       map[string]int         `json:"tx_fail"`
	FailLogs     map[string]string      `json:"fail_logs,omitempty"`
	Inconclusive string                 `json:"inconclusive,omitempty"`
	WallS        float64                `json:"wall_s"`
	Extra        map[string]interface{} `json:"extra,omitempty"`
}

// RunJob executes one job in this process.
func RunJob(j Job) (res *Result) {
	st := time.Now()
	res = &Result{Job: j, Events: map[string]int64{}, TxOK: map[string]int{}, TxFail: map[string]int{}, FailLogs: map[string]string{}}
	sc, ok := Scenarios[j.Scenario]
	if !ok {
		res.Inconclusive = "unknown scenario " + j.Scenario
		return
	}
	ps := Props[j.Prop]
	c := &Ctx{Job: j, Events: res.Events, Extra: map[string]interface{}{}}
	chain.SubSecondJobs = j.Index%3 != 0
	chain.GovOwnedShareEntries = j.Index%2 == 1
	if ps != nil && ps.Monitors != nil {
		c.Mons = ps.Monitors()
	}
	func() {
		defer func() {
			if r := recover(); r != nil {
				// a panic of the harness itself (not of FinalizeBlock, which the driver recovers)
				res.Inconclusive = fmt.Sprintf("harness panic: %v\n%s", r, stackTrim())
			}
		}()
		sc.Run(c)
	}()
	if DebugHook != nil && c.World != nil {
		DebugHook(c)
	}
	if res.Inconclusive == "" {
		res.Inconclusive = c.Inconclusive
	}
	res.Extra = c.Extra
	// keep at most 25 records per signature (rule, relation): a known finding that fires at every
	// block must not crowd a different violation out of the record
	perSig := map[string]int{}
	keep := func(v chain.Violation) {
		res.NViolations++
		k := v.Rule + "|" + digits.ReplaceAllString(v.Relation, "#")
		perSig[k]++
		if perSig[k] <= 25 && len(res.Violations) < 1000 {
			res.Violations = append(res.Violations, v)
		}
	}
	for _, w := range c.Worlds {
		for _, v := range w.Violations {
			if v.Property == j.Prop {
				keep(v)
			}
		}
		res.Blocks += w.Height
		if w.Dead && len(w.Blocks) > 0 {
			lb := w.Blocks[len(w.Blocks)-1]
			c.Extra["dead"] = fmt.Sprintf("height %d: %s", lb.Height, lb.Err)
		}
		for k, v := range w.OkCount {
			res.TxOK[k] += v
		}
		for k, v := range w.FailCount {
			res.TxFail[k] += v
		}
		for k, v := range w.FailLogs {
			res.FailLogs[k] = v
		}
		w.Close()
	}
	for _, v := range c.ExtraViol {
		if v.Property == j.Prop {
			keep(v)
		}
	}
	for _, m := range c.Mons {
		if cl, ok := m.(interface{ Close() }); ok {
			cl.Close()
		}
		s := m.Stats()
		if s.Prop != j.Prop {
			continue
		}
		res.Stats = append(res.Stats, MonStat{Prop: s.Prop, Evaluations: s.Evaluations, Distinct: s.DistinctKeys(), Samples: s.Samples, Events: s.Events})
	}
	res.WallS = time.Since(st).Seconds()
	return
}

func stackTrim() string {
	buf := make([]byte, 1<<14)
	n := runtime.Stack(buf, false)
	return string(buf[:n])
}

// ---------------------------------------------------------------------------------------------
// known findings

type KnownFinding struct {
	Property string `json:"property"`
	Status   string `json:"status"` // known | fixed
	Commit   string `json:"commit,omitempty"`
	What     string `json:"what"`
	Match    struct {
		Rule          string            `json:"rule,omitempty"`
		RuleRegex     string            `json:"rule_regex,omitempty"`
		RelationRegex string            `json:"relation_regex,omitempty"`
		Scope         map[string]string `json:"scope,omitempty"`
		OpsAnyOf      []string          `json:"ops_any_of,omitempty"`
	} `json:"match"`
}

func LoadKnown(path string) []KnownFinding {
	b, err := os.ReadFile(path)
	if err != nil {
		return nil
	}
	var k []KnownFinding
	if err := json.Unmarshal(b, &k); err != nil {
		fmt.Fprintln(os.Stderr, "known_findings.json unreadable:", err)
		return nil
	}
	return k
}

func (k *KnownFinding) Matches(v *chain.Violation) bool {
	if k.Status != "known" || k.Property != v.Property {
		return false
	}
	if k.Match.RuleRegex != "" {
		if ok, _ := regexp.MatchString(k.Match.RuleRegex, v.Rule); !ok {
			return false
		}
	} else if k.Match.Rule != v.Rule {
		return false
	}
	if k.Match.RelationRegex != "" {
		ok, _ := regexp.MatchString(k.Match.RelationRegex, v.Relation)
		if !ok {
			return false
		}
	}
	for kk, vv := range k.Match.Scope {
		if v.Scope[kk] != vv {
			return false
		}
	}
	if len(k.Match.OpsAnyOf) > 0 {
		hit := false
		for _, o := range v.Ops {
			for _, w := range k.Match.OpsAnyOf {
				if o == w {
					hit = true
				}
			}
		}
		if !hit {
			return false
		}
	}
	return true
}

var digits = regexp.MustCompile(`-?[0-9]+`)

// SigKey identifies a violation class for de-duplication.
func SigKey(v *chain.Violation) string {
	keys := []string{}
	for k := range v.Scope {
		if k == "at" {
			continue
		}
		keys = append(keys, k+"="+v.Scope[k])
	}
	sort.Strings(keys)
	return v.Rule + "|" + strings.Join(keys, ",") + "|" + digits.ReplaceAllString(v.Relation, "#")
}

// ---------------------------------------------------------------------------------------------
// orchestration

type Options struct {
	Prop     string
	Tier     string
	Seed     int64
	VerifDir string
	Self     string // path of this binary
	Parallel int
	Only     string // restrict to one scenario
	MaxCount int
}

func Plan(ps *PropSpec, o Options) []Job {
	jobs := []Job{}
	for _, it := range ps.Plan(o.Tier) {
		if o.Only != "" && o.Only != it.Scenario {
			continue
		}
		if it.Scenario == "race" && os.Getenv("VERIF_NORACE") != "" {
			continue // development runs without the race-detector build (./check builds it unless this is set)
		}
		n := it.Count
		if o.MaxCount > 0 && n > o.MaxCount {
			n = o.MaxCount
		}
		for i := 0; i < n; i++ {
			jobs = append(jobs, Job{Prop: ps.ID, Scenario: it.Scenario, Index: i, Seed: o.Seed, Tier: o.Tier})
		}
	}
	return jobs
}

// Main runs a property check and returns the process exit code.
func Main(o Options) int {
	st := time.Now()
	ps, ok := Props[o.Prop]
	if !ok {
		fmt.Printf("INCONCLUSIVE property=%s reason=unknown property\n", o.Prop)
		return 2
	}
	jobs := Plan(ps, o)
	if len(jobs) == 0 {
		fmt.Printf("INCONCLUSIVE property=%s reason=empty plan\n", o.Prop)
		return 2
	}
	tmp, err := os.MkdirTemp("", "verifrun")
	if err != nil {
		panic(err)
	}
	defer os.RemoveAll(tmp)
	results := make([]*Result, len(jobs))
	par := o.Parallel
	if par <= 0 {
		par = runtime.NumCPU() - 2
		if par < 1 {
			par = 1
		}
	}
	sem := make(chan struct{}, par)
	var wg sync.WaitGroup
	watchdog := 40 * time.Minute
	if o.Tier == "thorough" {
		watchdog = 3 * time.Hour
	}
	for i, j := range jobs {
		wg.Add(1)
		sem <- struct{}{}
		go func(i int, j Job) {
			defer wg.Done()
			defer func() { <-sem }()
			out := filepath.Join(tmp, fmt.Sprintf("res%d.json", i))
			logf := filepath.Join(tmp, fmt.Sprintf("log%d.txt", i))
			jb, _ := json.Marshal(j)
			bin := o.Self
			env := append(os.Environ(), "GOMAXPROCS=2")
			if strings.HasPrefix(j.Scenario, "race") {
				// the race-detector build (made by ./check for C19 thorough); reports go to a log file
				bin = filepath.Join(o.VerifDir, ".bin", "verif-race")
				env = append(os.Environ(), "GOMAXPROCS=8", "GORACE=halt_on_error=0 log_path="+filepath.Join(tmp, fmt.Sprintf("race%d", i)), "VERIF_RACE_LOG="+filepath.Join(tmp, fmt.Sprintf("race%d", i)))
			}
			// every temporary directory of the worker and of the processes it starts (worlds, replica
			// databases, crash children that are killed before they can tidy up) lives under the
			// run's own directory and goes away with the job
			jobTmp := filepath.Join(tmp, fmt.Sprintf("t%d", i))
			_ = os.MkdirAll(jobTmp, 0o755)
			defer os.RemoveAll(jobTmp)
			env = append(env, "TMPDIR="+jobTmp)
			cmd := exec.Command(bin, "worker", string(jb), out)
			lf, _ := os.Create(logf)
			cmd.Stdout, cmd.Stderr = lf, lf
			cmd.Env = env
			done := make(chan error, 1)
			if err := cmd.Start(); err != nil {
				results[i] = &Result{Job: j, Inconclusive: "worker start: " + err.Error()}
				return
			}
			go func() { done <- cmd.Wait() }()
			var werr error
			select {
			case werr = <-done:
			case <-time.After(watchdog):
				cmd.Process.Kill()
				werr = fmt.Errorf("watchdog fired after %v", watchdog)
			}
			lf.Close()
			b, rerr := os.ReadFile(out)
			r := &Result{}
			if rerr != nil || json.Unmarshal(b, r) != nil {
				lg, _ := os.ReadFile(logf)
				if len(lg) > 3000 {
					lg = lg[len(lg)-3000:]
				}
				keep := filepath.Join(o.VerifDir, "replays", fmt.Sprintf("%s-worker-crash-%s-%d.log", j.Prop, j.Scenario, j.Index))
				full, _ := os.ReadFile(logf)
				os.WriteFile(keep, full, 0o644)
				r = &Result{Job: j, Inconclusive: fmt.Sprintf("worker produced no result (%v); log kept at %s; tail: %s", werr, keep, string(lg))}
			}
			results[i] = r
		}(i, j)
	}
	wg.Wait()
	return finish(ps, o, jobs, results, time.Since(st))
}

func finish(ps *PropSpec, o Options, jobs []Job, results []*Result, wall time.Duration) int {
	known := LoadKnown(filepath.Join(o.VerifDir, "known_findings.json"))
	distinct := map[uint64]struct{}{}
	var evals int64
	samples := []interface{}{}
	events := map[string]int64{}
	txok, txfail := map[string]int{}, map[string]int{}
	faillogs := map[string]string{}
	var blocks int64
	inconc := []string{}
	type vrec struct {
		V     chain.Violation
		Job   Job
		Count int
		Known *KnownFinding
	}
	sigs := map[string]*vrec{}
	order := []string{}
	scen := map[string]int{}
	extra := map[string]interface{}{}
	for _, r := range results {
		scen[r.Job.Scenario]++
		if r.Inconclusive != "" {
			inconc = append(inconc, r.Job.String()+": "+r.Inconclusive)
		}
		for _, s := range r.Stats {
			evals += s.Evaluations
			for _, h := range s.Distinct {
				distinct[h] = struct{}{}
			}
			for _, sm := range s.Samples {
				if len(samples) < 12 {
					samples = append(samples, map[string]interface{}{"scenario": r.Job.Scenario, "index": r.Job.Index, "case": sm})
				}
			}
			for k, v := range s.Events {
				events[k] += v
			}
		}
		for k, v := range r.Events {
			events[k] += v
		}
		for k, v := range r.TxOK {
			txok[k] += v
		}
		for k, v := range r.TxFail {
			txfail[k] += v
		}
		for k, v := range r.FailLogs {
			faillogs[k] = v
		}
		for k, v := range r.Extra {
			if _, ok := extra[k]; !ok {
				extra[k] = v
			}
		}
		blocks += r.Blocks
		for i := range r.Violations {
			v := r.Violations[i]
			k := SigKey(&v)
			if rec, ok := sigs[k]; ok {
				rec.Count++
				continue
			}
			rec := &vrec{V: v, Job: r.Job, Count: 1}
			for ki := range known {
				if known[ki].Matches(&v) {
					rec.Known = &known[ki]
					break
				}
			}
			sigs[k] = rec
			order = append(order, k)
		}
	}
	nviol := 0
	knownHit := map[string]int{}
	exit := 0
	os.MkdirAll(filepath.Join(o.VerifDir, "replays"), 0o755)
	for _, k := range order {
		rec := sigs[k]
		if rec.Known != nil {
			knownHit[rec.Known.What] += rec.Count
			continue
		}
		nviol++
		if nviol <= 12 {
			path := filepath.Join(o.VerifDir, "replays", fmt.Sprintf("%s-%s-%d-seed%d-%s-%d.json", o.Prop, rec.Job.Scenario, rec.Job.Index, rec.Job.Seed, rec.Job.Tier, nviol))
			b, _ := json.MarshalIndent(map[string]interface{}{"job": rec.Job, "violation": rec.V, "occurrences": rec.Count, "replay": "verif replay " + path}, "", " ")
			os.WriteFile(path, b, 0o644)
			fmt.Printf("VIOLATION property=%s replay=%s\n", o.Prop, path)
			fmt.Printf("  rule=%s scope=%v relation=%s ops=%v height=%d x%d\n  %s\n", rec.V.Rule, rec.V.Scope, rec.V.Relation, rec.V.Ops, rec.V.Height, rec.Count, rec.V.Detail)
		}
		exit = 1
	}
	whats := []string{}
	for w := range knownHit {
		whats = append(whats, w)
	}
	sort.Strings(whats)
	for _, w := range whats {
		fmt.Printf("KNOWN-FINDING: property=%s %s (x%d)\n", o.Prop, w, knownHit[w])
	}
	nd := int64(len(distinct))
	if exit == 0 {
		if len(inconc) > 0 {
			exit = 2
			for _, s := range inconc {
				if len(s) > 1500 {
					s = s[:1500]
				}
				fmt.Printf("INCONCLUSIVE property=%s reason=%s\n", o.Prop, strings.ReplaceAll(s, "\n", " | "))
			}
		} else if evals == 0 || nd < 2 || nd < ps.MinDistinct {
			exit = 2
			fmt.Printf("INCONCLUSIVE property=%s reason=monitors observed too little (evaluations=%d distinct=%d)\n", o.Prop, evals, nd)
		}
	}
	// evidence
	if len(samples) == 0 {
		samples = append(samples, "no sample recorded")
	}
	cov := map[string]interface{}{
		"evaluations":            evals,
		"distinct_nontrivial":    nd,
		"rule":                   ps.Rule,
		"samples":                samples,
		"scenarios":              scen,
		"jobs":                   len(jobs),
		"blocks":                 blocks,
		"txs_ok":                 txok,
		"txs_failed":             txfail,
		"observed_events":        events,
		"inconclusive_scenarios": inconc,
		"known_findings_hit":     knownHit,
	}
	for k, v := range extra {
		cov[k] = v
	}
	ev := map[string]interface{}{
		"property_id": o.Prop,
		"tier":        o.Tier,
		"seed":        o.Seed,
		"level":       ps.Level,
		"coverage":    cov,
		"assumptions": ps.Assume,
		"wall_s":      wall.Seconds(),
		"violations":  nviol,
		"verdict":     map[int]string{0: "held on everything explored", 1: "violated", 2: "inconclusive"}[exit],
	}
	b, _ := json.MarshalIndent(ev, "", " ")
	os.MkdirAll(filepath.Join(o.VerifDir, "evidence"), 0o755)
	os.WriteFile(filepath.Join(o.VerifDir, "evidence", o.Prop+".json"), b, 0o644)
	fmt.Printf("%s %s seed=%d: jobs=%d blocks=%d evaluations=%d distinct=%d violations=%d known=%d inconclusive=%d wall=%.1fs exit=%d\n",
		o.Prop, o.Tier, o.Seed, len(jobs), blocks, evals, nd, nviol, len(knownHit), len(inconc), wall.Seconds(), exit)
	if os.Getenv("VERIF_VERBOSE") != "" {
		fmt.Printf("tx ok: %v\ntx failed: %v\nfail logs: %v\nevents: %v\n", txok, txfail, faillogs, events)
	}
	return exit
}

// Worker entry: run one job and write its result.
func WorkerMain(jobJSON, out string) int {
	var j Job
	if err := json.Unmarshal([]byte(jobJSON), &j); err != nil {
		fmt.Println("bad job:", err)
		return 3
	}
	r := RunJob(j)
	b, err := json.Marshal(r)
	if err != nil {
		fmt.Println("marshal:", err)
		return 3
	}
	if err := os.WriteFile(out, b, 0o644); err != nil {
		fmt.Println(err)
		return 3
	}
	return 0
}

// ReplayMain re-executes the job recorded in a replay file on the current tree.
func ReplayMain(path string) int {
	b, err := os.ReadFile(path)
	if err != nil {
		fmt.Println(err)
		return 2
	}
	var rp struct {
		Job       Job             `json:"job"`
		Violation chain.Violation `json:"violation"`
	}
	if err := json.Unmarshal(b, &rp); err != nil {
		fmt.Println(err)
		return 2
	}
	fmt.Printf("replaying %s (recorded: %s at height %d)\n", rp.Job, rp.Violation.Rule, rp.Violation.Height)
	r := RunJob(rp.Job)
	want := SigKey(&rp.Violation)
	hit := false
	for i := range r.Violations {
		v := r.Violations[i]
		if SigKey(&v) == want && !hit {
			hit = true
			vb, _ := json.MarshalIndent(v, "", " ")
			fmt.Printf("REPRODUCED:\n%s\n", vb)
		}
	}
	if r.Inconclusive != "" {
		fmt.Println("inconclusive:", r.Inconclusive)
	}
	if hit {
		return 1
	}
	fmt.Printf("not reproduced (violations of this property in the replay: %d)\n", r.NViolations)
	return 0
}
