package mon

import (
	"fmt"
	"strings"

	"cosmossdk.io/math"
	sdk "github.com/cosmos/cosmos-sdk/types"
	ammtypes "github.com/elys-network/elys/x/amm/types"
	sstypes "github.com/elys-network/elys/x/stablestake/types"

	"verifharness/chain"
)

// C15: users' assets are never minted or destroyed by the protocol.
type C15 struct {
	st     *Stats
	prev   map[string]math.Int
	prevTS map[string]math.Int
	n      int
}

func NewC15() *C15           { return &C15{st: NewStats("C15")} }
func (m *C15) Stats() *Stats { return m.st }

func supplyMap(w *chain.World, ctx sdk.Context) map[string]math.Int {
	out := map[string]math.Int{}
	w.App.BankKeeper.IterateTotalSupply(ctx, func(c sdk.Coin) bool {
		out[c.Denom] = c.Amount
		return false
	})
	return out
}

var elysMintMsgs = map[string]bool{"/elys.commitment.MsgClaimVesting": true, "/elys.commitment.MsgVestNow": true}

func (m *C15) AfterCommit(w *chain.World, blk *chain.BlockRecord) {
	if w.Dead || blk.Res == nil {
		return
	}
	a := w.App
	ctx := w.ReadCtx()
	ops := OpsOf(blk)
	cur := supplyMap(w, ctx)
	external := map[string]bool{}
	for _, d := range w.Cfg.Denoms {
		if d.Denom != "uelys" {
			external[d.Denom] = true
		}
	}
	poolAddr := map[string]string{}
	for _, p := range a.AmmKeeper.GetAllPool(ctx) {
		poolAddr[ammtypes.GetPoolShareDenom(p.PoolId)] = p.Address
	}
	poolAddr[sstypes.GetShareDenom()] = ModAddr("stablestake").String()
	commitment := ModAddr("commitment").String()
	burnersOK := map[string]bool{ModAddr("burner").String(): true, ModAddr("gov").String(): true, ModAddr("bonded_tokens_pool").String(): true, ModAddr("not_bonded_tokens_pool").String(): true}
	minted, burned := map[string]math.Int{}, map[string]math.Int{}

	step := func(evs []BankEv, where string, msgTypes []string, txi int, ok bool) {
		for _, e := range evs {
			if e.Kind != "coinbase" && e.Kind != "burn" {
				continue
			}
			for _, c := range e.Coins {
				if e.Kind == "coinbase" {
					addTo(minted, c.Denom, c.Amount)
				} else {
					addTo(burned, c.Denom, c.Amount)
				}
				m.st.Ev(e.Kind + "/" + denomClass(c.Denom))
				bad := ""
				switch {
				case external[c.Denom] || strings.HasPrefix(c.Denom, "ibc/"):
					bad = "externally issued asset " + e.Kind
				case c.Denom == "uelys" && e.Kind == "coinbase":
					allowed := false
					for _, mt := range msgTypes {
						if elysMintMsgs[mt] {
							allowed = true
						}
					}
					if !allowed || e.Addr != commitment {
						bad = "native token minted outside a vesting release"
					}
				case c.Denom == "uelys" && e.Kind == "burn":
					if !burnersOK[e.Addr] {
						bad = "native token burned by " + e.Addr
					}
				case strings.HasPrefix(c.Denom, "amm/pool/") || c.Denom == sstypes.GetShareDenom():
					pa := poolAddr[c.Denom]
					moved := false
					for _, e2 := range evs {
						if e.Kind == "coinbase" && e2.Kind == "coin_received" && e2.Addr == pa {
							moved = true
						}
						if e.Kind == "burn" && e2.Kind == "coin_spent" && e2.Addr == pa {
							moved = true
						}
					}
					if !moved {
						bad = "share token " + e.Kind + " without a matching deposit/withdrawal of its pool or vault"
					}
				default:
					bad = "unexpected denom " + e.Kind
				}
				if bad != "" {
					w.Report(chain.Violation{Property: "C15", Rule: "C15.mint_burn_rule", Scope: sc("denom_class", denomClass(c.Denom), "kind", e.Kind, "where", where), Ops: msgTypes, TxIndex: txi,
						Detail: fmt.Sprintf("%s: %s of %s by %s in %s (msgs %v)", bad, e.Kind, c, e.Addr, where, msgTypes)})
				}
			}
		}
	}
	for i, t := range blk.Txs {
		if t.Result == nil {
			continue
		}
		mts := []string{}
		for _, msg := range t.Msgs {
			mts = append(mts, sdk.MsgTypeURL(msg))
		}
		step(ParseBankEvents(t.Result.Events), "tx", mts, i, t.OK())
	}
	bb, eb := []BankEv{}, []BankEv{}
	for _, e := range ParseBankEvents(blk.Res.Events) {
		if e.Mode == "BeginBlock" {
			bb = append(bb, e)
		} else {
			eb = append(eb, e)
		}
	}
	step(bb, "BeginBlock", nil, -1, true)
	step(eb, "EndBlock", nil, -1, true)

	if m.prev != nil {
		denoms := map[string]bool{}
		for d := range cur {
			denoms[d] = true
		}
		for d := range m.prev {
			denoms[d] = true
		}
		for d := range denoms {
			delta := zi(cur, d).Sub(zi(m.prev, d))
			exp := zi(minted, d).Sub(zi(burned, d))
			if m.st.Eval("supply/"+d, zi(cur, d).String()) {
				m.st.Sample(map[string]interface{}{"height": w.Height, "denom": d, "supply": zi(cur, d).String(), "delta": delta.String(), "minted_events": zi(minted, d).String(), "burned_events": zi(burned, d).String(), "ops": ops})
			}
			if (external[d] || strings.HasPrefix(d, "ibc/")) && !delta.IsZero() {
				w.Report(chain.Violation{Property: "C15", Rule: "C15.external_supply_constant", Scope: sc("denom", d), Ops: ops, Relation: "delta=" + delta.String(), Detail: fmt.Sprintf("supply of %s changed by %s in block %d", d, delta, w.Height)})
			}
			if !delta.Equal(exp) {
				w.Report(chain.Violation{Property: "C15", Rule: "C15.supply_delta_explained_by_events", Scope: sc("denom_class", denomClass(d)), Ops: ops, Relation: "delta-events=" + delta.Sub(exp).String(), Detail: fmt.Sprintf("supply of %s changed by %s but mint/burn events explain %s", d, delta, exp)})
			}
		}
	}
	// share tokens move only against the pool's own books: the supply of amm/pool/<id> and the
	// pool's recorded TotalShares change by the same amount in every block
	curTS := map[string]math.Int{}
	for _, p := range a.AmmKeeper.GetAllPool(ctx) {
		d := ammtypes.GetPoolShareDenom(p.PoolId)
		curTS[d] = p.TotalShares.Amount
		if m.prevTS != nil && m.prev != nil {
			if pt, ok := m.prevTS[d]; ok {
				ds := zi(cur, d).Sub(zi(m.prev, d))
				dt := p.TotalShares.Amount.Sub(pt)
				m.st.Eval("sharebooks/"+d, p.TotalShares.Amount.String())
				if !ds.Equal(dt) {
					w.Report(chain.Violation{Property: "C15", Rule: "C15.share_supply_moves_with_pool_books", Scope: sc("denom_class", "pool_share"), Ops: ops, Relation: "supply_delta-books_delta=" + ds.Sub(dt).String(),
						Detail: fmt.Sprintf("block %d: supply of %s changed by %s but the pool's recorded total shares changed by %s: shares were minted or burned without the matching deposit / withdrawal in the pool's books", w.Height, d, ds, dt)})
				}
			}
		}
	}
	m.prevTS = curTS
	m.prev = cur
	// sum of all balances == supply (every 8th block; it walks every account)
	m.n++
	if m.n%8 == 0 {
		tot := map[string]math.Int{}
		a.BankKeeper.IterateAllBalances(ctx, func(_ sdk.AccAddress, c sdk.Coin) bool {
			addTo(tot, c.Denom, c.Amount)
			return false
		})
		for d, s := range cur {
			m.st.Eval("sumbal/"+d, s.String())
			if !zi(tot, d).Equal(s) {
				w.Report(chain.Violation{Property: "C15", Rule: "C15.sum_balances_eq_supply", Scope: sc("denom_class", denomClass(d)), Ops: ops, Detail: fmt.Sprintf("%s: sum of balances %s supply %s", d, zi(tot, d), s)})
			}
		}
	}
}
