package mon

import (
	"fmt"
	"strings"

	"cosmossdk.io/math"
	sdk "github.com/cosmos/cosmos-sdk/types"
	banktypes "github.com/cosmos/cosmos-sdk/x/bank/types"
	ammtypes "github.com/elys-network/elys/x/amm/types"
	perptypes "github.com/elys-network/elys/x/perpetual/types"

	"verifharness/chain"
)

// ---------------------------------------------------------------------------------------------
// C01: AMM reserves == bank holdings (+ third-party donations); DenomLiquidity == sum reserves.

type C01 struct {
	st      *Stats
	donated map[string]math.Int // poolAddr|denom -> amount sent straight to the address by MsgSend
	ops     []string
}

func NewC01() *C01           { return &C01{st: NewStats("C01"), donated: map[string]math.Int{}} }
func (m *C01) Stats() *Stats { return m.st }

func (m *C01) trackDonations(w *chain.World, blk *chain.BlockRecord, poolAddrs map[string]bool) {
	for _, t := range blk.Txs {
		if !t.OK() {
			continue
		}
		for _, msg := range t.Msgs {
			if s, ok := msg.(*banktypes.MsgSend); ok && poolAddrs[s.ToAddress] {
				for _, c := range s.Amount {
					addTo(m.donated, s.ToAddress+"|"+c.Denom, c.Amount)
				}
				m.st.Ev("donation_to_pool")
			}
		}
	}
}

func (m *C01) eval(w *chain.World, ctx sdk.Context, where string, ops []string) {
	a := w.App
	sumRes := map[string]math.Int{}
	for _, p := range a.AmmKeeper.GetAllPool(ctx) {
		addr := sdk.MustAccAddressFromBech32(p.Address)
		for _, as := range p.PoolAssets {
			d := as.Token.Denom
			bank := a.BankKeeper.GetBalance(ctx, addr, d).Amount
			don := zi(m.donated, p.Address+"|"+d)
			addTo(sumRes, d, as.Token.Amount)
			eq := fmt.Sprintf("reserve/%d/%s", p.PoolId, d)
			if m.st.Eval(eq, as.Token.Amount.String()+"/"+bank.String()) {
				m.st.Sample(map[string]interface{}{"height": w.Height, "at": where, "pool": p.PoolId, "denom": d, "book": as.Token.Amount.String(), "bank": bank.String(), "donated": don.String(), "ops": ops})
			}
			if !bank.Equal(as.Token.Amount.Add(don)) {
				diff := bank.Sub(as.Token.Amount).Sub(don)
				rel := "bank-book-donated=" + diff.String()
				if bank.IsZero() && as.Token.Amount.IsPositive() {
					rel = "bank==0,book>0"
				}
				w.Report(chain.Violation{Property: "C01", Rule: "C01.reserve_eq_bank", Scope: sc("pool", fmt.Sprint(p.PoolId), "denom", d, "at", where), Ops: ops, Relation: rel,
					Detail: fmt.Sprintf("pool %d %s: book=%s bank=%s donated=%s", p.PoolId, d, as.Token.Amount, bank, don)})
			}
		}
	}
	seen := map[string]bool{}
	for _, dl := range a.AmmKeeper.GetAllDenomLiquidity(ctx) {
		seen[dl.Denom] = true
		s := zi(sumRes, dl.Denom)
		m.st.Eval("denomliq/"+dl.Denom, dl.Liquidity.String())
		if !s.Equal(dl.Liquidity) {
			w.Report(chain.Violation{Property: "C01", Rule: "C01.denom_liquidity_eq_sum", Scope: sc("denom", dl.Denom, "at", where), Ops: ops, Relation: "liq-sum=" + dl.Liquidity.Sub(s).String(),
				Detail: fmt.Sprintf("DenomLiquidity[%s]=%s sum reserves=%s", dl.Denom, dl.Liquidity, s)})
		}
	}
	for d, s := range sumRes {
		if !seen[d] && s.IsPositive() {
			w.Report(chain.Violation{Property: "C01", Rule: "C01.denom_liquidity_eq_sum", Scope: sc("denom", d, "at", where), Ops: ops, Relation: "missing",
				Detail: fmt.Sprintf("no DenomLiquidity record for %s, sum reserves=%s", d, s)})
		}
	}
}

func (m *C01) AfterCommit(w *chain.World, blk *chain.BlockRecord) {
	if w.Dead {
		return
	}
	ctx := w.ReadCtx()
	addrs := map[string]bool{}
	for _, p := range w.App.AmmKeeper.GetAllPool(ctx) {
		addrs[p.Address] = true
	}
	m.trackDonations(w, blk, addrs)
	m.eval(w, ctx, "commit", OpsOf(blk))
}

// ---------------------------------------------------------------------------------------------
// C02: TotalShares == supply == sum committed; custody holds them; mint/burn only by join/exit.

type C02 struct {
	st         *Stats
	lastSupply map[string]math.Int
}

func NewC02() *C02           { return &C02{st: NewStats("C02"), lastSupply: map[string]math.Int{}} }
func (m *C02) Stats() *Stats { return m.st }

var shareMintBurnMsgs = map[string]bool{
	"/elys.amm.MsgCreatePool": true, "/elys.amm.MsgJoinPool": true, "/elys.amm.MsgExitPool": true,
	"/elys.leveragelp.MsgOpen": true, "/elys.leveragelp.MsgClose": true, "/elys.leveragelp.MsgClosePositions": true,
}

func (m *C02) AfterCommit(w *chain.World, blk *chain.BlockRecord) {
	if w.Dead {
		return
	}
	a := w.App
	ctx := w.ReadCtx()
	ops := OpsOf(blk)
	committed := map[string]math.Int{}
	comms := a.CommitmentKeeper.GetAllCommitments(ctx)
	for _, c := range comms {
		for _, ct := range c.CommittedTokens {
			addTo(committed, ct.Denom, ct.Amount)
		}
	}
	custody := ModAddr("commitment")
	poolAddr := map[string]string{}
	for _, p := range a.AmmKeeper.GetAllPool(ctx) {
		sd := ammtypes.GetPoolShareDenom(p.PoolId)
		poolAddr[sd] = p.Address
		sup := a.BankKeeper.GetSupply(ctx, sd).Amount
		tot := zi(committed, sd)
		cust := a.BankKeeper.GetBalance(ctx, custody, sd).Amount
		if m.st.Eval("shares/"+sd, sup.String()+"/"+tot.String()) {
			m.st.Sample(map[string]interface{}{"height": w.Height, "pool": p.PoolId, "total_shares": p.TotalShares.Amount.String(), "supply": sup.String(), "sum_committed": tot.String(), "custody": cust.String(), "ops": ops})
		}
		if p.TotalShares.Denom != sd || !sup.Equal(p.TotalShares.Amount) {
			w.Report(chain.Violation{Property: "C02", Rule: "C02.total_shares_eq_supply", Scope: sc("pool", fmt.Sprint(p.PoolId)), Ops: ops, Relation: "total-supply=" + p.TotalShares.Amount.Sub(sup).String(),
				Detail: fmt.Sprintf("pool %d TotalShares=%s supply=%s", p.PoolId, p.TotalShares, sup)})
		}
		if !tot.Equal(sup) {
			w.Report(chain.Violation{Property: "C02", Rule: "C02.supply_eq_sum_committed", Scope: sc("pool", fmt.Sprint(p.PoolId)), Ops: ops, Relation: "supply-committed=" + sup.Sub(tot).String(),
				Detail: fmt.Sprintf("pool %d supply=%s sum committed=%s", p.PoolId, sup, tot)})
		}
		if cust.LT(tot) {
			w.Report(chain.Violation{Property: "C02", Rule: "C02.custody_holds_committed", Scope: sc("pool", fmt.Sprint(p.PoolId)), Ops: ops, Relation: "custody<committed",
				Detail: fmt.Sprintf("pool %d custody balance=%s sum committed=%s", p.PoolId, cust, tot)})
		}
		if !p.TotalShares.Amount.IsPositive() {
			w.Report(chain.Violation{Property: "C02", Rule: "C02.total_shares_positive", Scope: sc("pool", fmt.Sprint(p.PoolId)), Ops: ops, Detail: fmt.Sprintf("pool %d TotalShares=%s", p.PoolId, p.TotalShares)})
		}
	}
	// mint/burn attribution from the bank's own events
	check := func(evs []BankEv, where string, msgTypes []string, txi int) {
		for _, e := range evs {
			if e.Kind != "coinbase" && e.Kind != "burn" {
				continue
			}
			for _, c := range e.Coins {
				if !strings.HasPrefix(c.Denom, "amm/pool/") {
					continue
				}
				m.st.Ev("share_" + e.Kind)
				ok := false
				for _, mt := range msgTypes {
					if shareMintBurnMsgs[mt] {
						ok = true
					}
				}
				if where == "BeginBlock" {
					ok = true // leveragelp sweep; the matching reserve move is checked below
				}
				// the pool's own holdings must move in the matching direction in the same step
				pa := poolAddr[c.Denom]
				moved := false
				for _, e2 := range evs {
					if e.Kind == "coinbase" && e2.Kind == "coin_received" && e2.Addr == pa {
						moved = true
					}
					if e.Kind == "burn" && e2.Kind == "coin_spent" && e2.Addr == pa {
						moved = true
					}
				}
				if !ok || !moved {
					w.Report(chain.Violation{Property: "C02", Rule: "C02.share_mint_burn_attribution", Scope: sc("denom", c.Denom, "kind", e.Kind, "where", where), Ops: msgTypes, TxIndex: txi,
						Detail: fmt.Sprintf("%s of %s in %s (msgs %v): allowed_msg=%v pool_moved=%v", e.Kind, c, where, msgTypes, ok, moved)})
				}
			}
		}
	}
	if blk.Res != nil {
		for i, t := range blk.Txs {
			if t.Result == nil {
				continue
			}
			mts := []string{}
			for _, msg := range t.Msgs {
				mts = append(mts, sdk.MsgTypeURL(msg))
			}
			check(ParseBankEvents(t.Result.Events), "tx", mts, i)
		}
		bb, eb := []BankEv{}, []BankEv{}
		for _, e := range ParseBankEvents(blk.Res.Events) {
			if e.Mode == "BeginBlock" {
				bb = append(bb, e)
			} else {
				eb = append(eb, e)
			}
		}
		check(bb, "BeginBlock", nil, -1)
		check(eb, "EndBlock", nil, -1)
	}
}

// ---------------------------------------------------------------------------------------------
// C06: stablestake TotalValue == cash + sum(Borrowed + InterestStacked - InterestPaid).

type C06 struct{ st *Stats }

func NewC06() *C06           { return &C06{st: NewStats("C06")} }
func (m *C06) Stats() *Stats { return m.st }

func (m *C06) eval(w *chain.World, ctx sdk.Context, where string, ops []string, txi int) {
	a := w.App
	sp := a.StablestakeKeeper.GetParams(ctx)
	cash := a.BankKeeper.GetBalance(ctx, ModAddr("stablestake"), sp.DepositDenom).Amount
	debts := math.ZeroInt()
	n := 0
	for _, d := range a.StablestakeKeeper.GetAllDebts(ctx) {
		debts = debts.Add(d.Borrowed).Add(d.InterestStacked).Sub(d.InterestPaid)
		n++
	}
	if m.st.Eval("vault", sp.TotalValue.String()+"/"+cash.String()+"/"+debts.String()) {
		m.st.Sample(map[string]interface{}{"height": w.Height, "at": where, "total_value": sp.TotalValue.String(), "cash": cash.String(), "debts": debts.String(), "n_debts": n, "ops": ops})
	}
	if !sp.TotalValue.Equal(cash.Add(debts)) {
		w.Report(chain.Violation{Property: "C06", Rule: "C06.total_value_eq_cash_plus_debt", Scope: sc("at", where), Ops: ops, TxIndex: txi, Relation: "tv-cash-debt=" + sp.TotalValue.Sub(cash).Sub(debts).String(),
			Detail: fmt.Sprintf("TotalValue=%s cash=%s debts=%s (%d debts)", sp.TotalValue, cash, debts, n)})
	}
}

func (m *C06) AfterCommit(w *chain.World, blk *chain.BlockRecord) {
	if w.Dead {
		return
	}
	m.eval(w, w.ReadCtx(), "commit", OpsOf(blk), -1)
}

func (m *C06) PostTx(w *chain.World, ctx sdk.Context, tx *chain.TxRecord, success bool) {
	if !success || tx == nil {
		return
	}
	mt := tx.MsgType()
	if strings.HasPrefix(mt, "/elys.stablestake.") || strings.HasPrefix(mt, "/elys.leveragelp.") {
		m.eval(w, ctx, "posttx", []string{strings.TrimPrefix(mt, "/elys.")}, -1)
	}
}

// ---------------------------------------------------------------------------------------------
// C08: leveragelp pool totals == sum of positions; position LP == committed at position address.

type C08 struct {
	st   *Stats
	prev map[string]string // position key -> address (positions alive at the previous commit)
}

func NewC08() *C08           { return &C08{st: NewStats("C08"), prev: map[string]string{}} }
func (m *C08) Stats() *Stats { return m.st }

func (m *C08) AfterCommit(w *chain.World, blk *chain.BlockRecord) {
	if w.Dead {
		return
	}
	a := w.App
	ctx := w.ReadCtx()
	ops := OpsOf(blk)
	posSum := map[uint64]math.Int{}
	poss := a.LeveragelpKeeper.GetAllPositions(ctx)
	now := map[string]string{}
	for _, p := range poss {
		if _, ok := posSum[p.AmmPoolId]; !ok {
			posSum[p.AmmPoolId] = math.ZeroInt()
		}
		posSum[p.AmmPoolId] = posSum[p.AmmPoolId].Add(p.LeveragedLpAmount)
		pa := p.GetPositionAddress()
		now[fmt.Sprintf("%s/%d", p.Address, p.Id)] = pa.String() + "|" + ammtypes.GetPoolShareDenom(p.AmmPoolId)
		c := a.CommitmentKeeper.GetCommitments(ctx, pa)
		cm := c.GetCommittedAmountForDenom(ammtypes.GetPoolShareDenom(p.AmmPoolId))
		if m.st.Eval(fmt.Sprintf("pos/%s/%d", p.Address, p.Id), p.LeveragedLpAmount.String()) {
			m.st.Sample(map[string]interface{}{"height": w.Height, "position": p.Id, "owner": p.Address, "lp": p.LeveragedLpAmount.String(), "committed_at_position_address": cm.String(), "ops": ops})
		}
		if !cm.Equal(p.LeveragedLpAmount) {
			w.Report(chain.Violation{Property: "C08", Rule: "C08.position_lp_eq_committed", Scope: sc("pool", fmt.Sprint(p.AmmPoolId), "position", fmt.Sprint(p.Id)), Ops: ops, Relation: "lp-committed=" + p.LeveragedLpAmount.Sub(cm).String(),
				Detail: fmt.Sprintf("position %d of %s: LeveragedLpAmount=%s committed=%s", p.Id, p.Address, p.LeveragedLpAmount, cm)})
		}
		if !p.LeveragedLpAmount.IsPositive() {
			w.Report(chain.Violation{Property: "C08", Rule: "C08.stored_position_nonempty", Scope: sc("position", fmt.Sprint(p.Id)), Ops: ops, Detail: fmt.Sprintf("stored position %d has LeveragedLpAmount=%s", p.Id, p.LeveragedLpAmount)})
		}
	}
	for _, lp := range a.LeveragelpKeeper.GetAllPools(ctx) {
		s, ok := posSum[lp.AmmPoolId]
		if !ok {
			s = math.ZeroInt()
		}
		m.st.Eval(fmt.Sprintf("pool/%d", lp.AmmPoolId), lp.LeveragedLpAmount.String())
		if !s.Equal(lp.LeveragedLpAmount) {
			w.Report(chain.Violation{Property: "C08", Rule: "C08.pool_total_eq_sum_positions", Scope: sc("pool", fmt.Sprint(lp.AmmPoolId)), Ops: ops, Relation: "pool-sum=" + lp.LeveragedLpAmount.Sub(s).String(),
				Detail: fmt.Sprintf("pool %d LeveragedLpAmount=%s sum positions=%s", lp.AmmPoolId, lp.LeveragedLpAmount, s)})
		}
		delete(posSum, lp.AmmPoolId)
	}
	for pid, s := range posSum {
		if s.IsPositive() {
			w.Report(chain.Violation{Property: "C08", Rule: "C08.pool_total_eq_sum_positions", Scope: sc("pool", fmt.Sprint(pid)), Ops: ops, Relation: "pool_missing", Detail: fmt.Sprintf("positions of pool %d sum %s but no leveragelp pool record", pid, s)})
		}
	}
	cnt := a.LeveragelpKeeper.GetOpenPositionCount(ctx)
	m.st.Eval("count", fmt.Sprint(cnt))
	if int(cnt) != len(poss) {
		w.Report(chain.Violation{Property: "C08", Rule: "C08.open_count_eq_stored", Ops: ops, Relation: fmt.Sprintf("count-stored=%d", int(cnt)-len(poss)), Detail: fmt.Sprintf("OpenPositionCount=%d stored=%d", cnt, len(poss))})
	}
	// positions that disappeared must leave nothing behind
	for k, v := range m.prev {
		if _, alive := now[k]; alive {
			continue
		}
		m.st.Ev("position_removed")
		parts := strings.SplitN(v, "|", 2)
		pa := sdk.MustAccAddressFromBech32(parts[0])
		c := a.CommitmentKeeper.GetCommitments(ctx, pa)
		left := c.GetCommittedAmountForDenom(parts[1])
		liquid := a.BankKeeper.GetBalance(ctx, pa, parts[1]).Amount
		m.st.Eval("removed/"+k, left.String()+"/"+liquid.String())
		if left.IsPositive() || liquid.IsPositive() {
			w.Report(chain.Violation{Property: "C08", Rule: "C08.closed_position_leaves_no_shares", Scope: sc("position", k), Ops: ops, Detail: fmt.Sprintf("closed position %s left committed=%s liquid=%s shares at its address", k, left, liquid)})
		}
	}
	m.prev = now
}

// ---------------------------------------------------------------------------------------------
// C09: perpetual pool aggregates == sum of MTPs; amm reserve >= total custody.

type C09 struct{ st *Stats }

func NewC09() *C09           { return &C09{st: NewStats("C09")} }
func (m *C09) Stats() *Stats { return m.st }

func (m *C09) AfterCommit(w *chain.World, blk *chain.BlockRecord) {
	if w.Dead {
		return
	}
	a := w.App
	ctx := w.ReadCtx()
	ops := OpsOf(blk)
	mtps := a.PerpetualKeeper.GetAllMTPs(ctx)
	for _, pp := range a.PerpetualKeeper.GetAllPools(ctx) {
		totCust := map[string]math.Int{}
		for _, sd := range []struct {
			side   perptypes.Position
			assets []perptypes.PoolAsset
		}{{perptypes.Position_LONG, pp.PoolAssetsLong}, {perptypes.Position_SHORT, pp.PoolAssetsShort}} {
			for _, as := range sd.assets {
				cu, li, co := math.ZeroInt(), math.ZeroInt(), math.ZeroInt()
				for _, mt := range mtps {
					if mt.AmmPoolId != pp.AmmPoolId || mt.Position != sd.side {
						continue
					}
					if mt.CustodyAsset == as.AssetDenom {
						cu = cu.Add(mt.Custody)
					}
					if mt.LiabilitiesAsset == as.AssetDenom {
						li = li.Add(mt.Liabilities)
					}
					if mt.CollateralAsset == as.AssetDenom {
						co = co.Add(mt.Collateral)
					}
				}
				addTo(totCust, as.AssetDenom, as.Custody)
				eq := fmt.Sprintf("agg/%d/%v/%s", pp.AmmPoolId, sd.side, as.AssetDenom)
				if m.st.Eval(eq, as.Custody.String()+"/"+as.Liabilities.String()+"/"+as.Collateral.String()) {
					m.st.Sample(map[string]interface{}{"height": w.Height, "pool": pp.AmmPoolId, "side": sd.side.String(), "asset": as.AssetDenom, "pool_custody": as.Custody.String(), "pool_liabilities": as.Liabilities.String(), "pool_collateral": as.Collateral.String(),
						"sum_custody": cu.String(), "sum_liabilities": li.String(), "sum_collateral": co.String(), "ops": ops})
				}
				chk := func(name string, pool, sum math.Int) {
					if !pool.Equal(sum) {
						w.Report(chain.Violation{Property: "C09", Rule: "C09.pool_" + name + "_eq_sum_mtps", Scope: sc("pool", fmt.Sprint(pp.AmmPoolId), "side", sd.side.String(), "denom", as.AssetDenom), Ops: ops, Relation: "pool-sum=" + pool.Sub(sum).String(),
							Detail: fmt.Sprintf("pool %d %v %s: pool %s=%s sum over MTPs=%s", pp.AmmPoolId, sd.side, as.AssetDenom, name, pool, sum)})
					}
				}
				chk("custody", as.Custody, cu)
				chk("liabilities", as.Liabilities, li)
				chk("collateral", as.Collateral, co)
			}
		}
		amm, found := a.AmmKeeper.GetPool(ctx, pp.AmmPoolId)
		if found {
			for _, as := range amm.PoolAssets {
				tc := zi(totCust, as.Token.Denom)
				m.st.Eval(fmt.Sprintf("backed/%d/%s", pp.AmmPoolId, as.Token.Denom), as.Token.Amount.String()+"/"+tc.String())
				if as.Token.Amount.LT(tc) {
					w.Report(chain.Violation{Property: "C09", Rule: "C09.custody_backed_by_reserve", Scope: sc("pool", fmt.Sprint(pp.AmmPoolId), "denom", as.Token.Denom), Ops: ops, Detail: fmt.Sprintf("pool %d %s reserve=%s < total custody=%s", pp.AmmPoolId, as.Token.Denom, as.Token.Amount, tc)})
				}
			}
		}
	}
	cnt := a.PerpetualKeeper.GetOpenMTPCount(ctx)
	m.st.Eval("count", fmt.Sprint(cnt, len(mtps)))
	if int(cnt) != len(mtps) {
		w.Report(chain.Violation{Property: "C09", Rule: "C09.open_count_eq_stored", Ops: ops, Relation: fmt.Sprintf("count-stored=%d", int(cnt)-len(mtps)), Detail: fmt.Sprintf("OpenMTPCount=%d stored=%d", cnt, len(mtps))})
	}
	for _, mt := range mtps {
		if mt.Custody.IsNegative() || mt.Liabilities.IsNegative() || mt.Collateral.IsNegative() {
			// counted, not a verdict: the property speaks of the aggregates, the counter and the backing
			// of the total custody, all of which are judged above with such a position included
			m.st.Ev("stored_position_with_a_negative_field")
		}
	}
}

// ---------------------------------------------------------------------------------------------
// C11: accounted pool total == amm reserve + liabilities - custody; non-amm part == L - C.

type C11 struct {
	st       *Stats
	lastPerp []string
	lastAmm  []string
}

func NewC11() *C11           { return &C11{st: NewStats("C11")} }
func (m *C11) Stats() *Stats { return m.st }

func (m *C11) AfterCommit(w *chain.World, blk *chain.BlockRecord) {
	if w.Dead {
		return
	}
	a := w.App
	ctx := w.ReadCtx()
	ops := OpsOf(blk)
	ptp := a.PerpetualKeeper.GetParams(ctx).EnableTakeProfitCustodyLiabilities
	for _, pp := range a.PerpetualKeeper.GetAllPools(ctx) {
		amm, ok1 := a.AmmKeeper.GetPool(ctx, pp.AmmPoolId)
		ap, ok2 := a.AccountedPoolKeeper.GetAccountedPool(ctx, pp.AmmPoolId)
		if !ok1 {
			continue
		}
		if !ok2 {
			w.Report(chain.Violation{Property: "C11", Rule: "C11.accounted_pool_exists", Scope: sc("pool", fmt.Sprint(pp.AmmPoolId)), Ops: ops, Detail: "perpetual pool without accounted pool"})
			continue
		}
		for _, as := range amm.PoolAssets {
			d := as.Token.Denom
			l, c, tpc, tpl := pp.GetPerpetualPoolBalances(d)
			exp := as.Token.Amount.Add(l).Sub(c)
			if ptp {
				exp = exp.Add(tpc).Sub(tpl)
			}
			got := sdk.Coins(ap.TotalTokens).AmountOf(d)
			non := math.ZeroInt()
			for _, t := range ap.NonAmmPoolTokens {
				if t.Denom == d {
					non = t.Amount
				}
			}
			if m.st.Eval(fmt.Sprintf("acc/%d/%s", pp.AmmPoolId, d), as.Token.Amount.String()+"/"+l.String()+"/"+c.String()) {
				m.st.Sample(map[string]interface{}{"height": w.Height, "pool": pp.AmmPoolId, "denom": d, "reserve": as.Token.Amount.String(), "liabilities": l.String(), "custody": c.String(), "accounted_total": got.String(), "non_amm": non.String(), "ops": ops})
			}
			if !exp.Equal(got) {
				w.Report(chain.Violation{Property: "C11", Rule: "C11.total_eq", Scope: sc("pool", fmt.Sprint(pp.AmmPoolId), "denom", d), Ops: ops, Relation: "got-expected=" + got.Sub(exp).String(),
					Detail: fmt.Sprintf("pool %d %s: reserve=%s L=%s C=%s expected=%s accounted=%s", pp.AmmPoolId, d, as.Token.Amount, l, c, exp, got)})
			}
			if !non.Equal(exp.Sub(as.Token.Amount)) {
				w.Report(chain.Violation{Property: "C11", Rule: "C11.non_amm_eq", Scope: sc("pool", fmt.Sprint(pp.AmmPoolId), "denom", d), Ops: ops, Relation: "got-expected=" + non.Sub(exp.Sub(as.Token.Amount)).String(),
					Detail: fmt.Sprintf("pool %d %s: L=%s C=%s NonAmmPoolTokens=%s", pp.AmmPoolId, d, l, c, non)})
			}
		}
	}
}
