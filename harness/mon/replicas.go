package mon

import (
	"bytes"
	"fmt"
	"strings"

	"cosmossdk.io/math"
	abci "github.com/cometbft/cometbft/abci/types"
	sdk "github.com/cosmos/cosmos-sdk/types"
	banktypes "github.com/cosmos/cosmos-sdk/x/bank/types"

	"verifharness/chain"
)

// C19: replicas fed the same blocks agree on AppHash and tx results after every block, also when
// restarted after every height or crashed between FinalizeBlock and Commit at every height.
type C19 struct {
	st           *Stats
	plain        *chain.Replica // same blocks, un-probed (also the transparency check of the probes)
	restart      *chain.Replica // restarted after every committed height
	crash        *chain.Replica // FinalizeBlock, throw away, reopen, FinalizeBlock again, Commit
	LevelDB      bool
	inited       bool
	RestartEvery int
}

func NewC19() *C19           { return &C19{st: NewStats("C19"), RestartEvery: 1} }
func (m *C19) Stats() *Stats { return m.st }

func (m *C19) init(w *chain.World) {
	m.plain = chain.NewReplica(w, "plain", false)
	m.restart = chain.NewReplica(w, "restart", m.LevelDB)
	m.crash = chain.NewReplica(w, "crash", false)
	m.inited = true
	// catch up with the blocks the world already ran
	for _, b := range w.Blocks[:len(w.Blocks)-1] {
		m.feed(w, b)
	}
}

func (m *C19) Close() {
	for _, r := range []*chain.Replica{m.plain, m.restart, m.crash} {
		if r != nil {
			r.Close()
		}
	}
}

func (m *C19) diverged(w *chain.World, blk *chain.BlockRecord, rep string, what string) {
	kind := "results"
	if strings.HasPrefix(what, "AppHash") {
		kind = "apphash"
	}
	w.Report(chain.Violation{Property: "C19", Rule: "C19.replica_agrees", Scope: sc("replica", rep, "kind", kind), Ops: OpsOf(blk), Relation: "diverged", Height: blk.Height,
		Detail: fmt.Sprintf("height %d replica %s: %s", blk.Height, rep, what)})
}

func (m *C19) feed(w *chain.World, blk *chain.BlockRecord) {
	if blk.Res == nil {
		return
	}
	// plain
	if m.plain.Dead == "" {
		res, err := m.plain.Apply(blk.Req)
		m.st.Ev("blocks_plain")
		if err != nil {
			m.diverged(w, blk, "plain", "replica failed: "+err.Error())
		} else if d := chain.CompareResults(blk.Res, res); d != "" {
			m.diverged(w, blk, "plain", d)
			m.plain.Dead = "diverged"
		} else if ms, _ := chain.BlockEventsDiff(blk.Res, res); ms != "" {
			m.diverged(w, blk, "plain", "block events (multiset): "+ms)
		}
		m.st.Eval("plain", fmt.Sprintf("%d/%x", blk.Height, blk.AppHash))
	}
	// restart after every committed height
	if m.restart.Dead == "" {
		res, err := m.restart.Apply(blk.Req)
		if err != nil {
			m.diverged(w, blk, "restart", "replica failed: "+err.Error())
		} else if d := chain.CompareResults(blk.Res, res); d != "" {
			m.diverged(w, blk, "restart", d)
			m.restart.Dead = "diverged"
		} else {
			if m.RestartEvery > 0 && blk.Height%int64(m.RestartEvery) == 0 {
				m.restart.Reopen()
				m.st.Ev("restart_points")
				if !bytes.Equal(m.restart.App.LastCommitID().Hash, blk.AppHash) || m.restart.App.LastBlockHeight() != blk.Height {
					m.diverged(w, blk, "restart", fmt.Sprintf("after reopen: height %d hash %X, expected %d %X", m.restart.App.LastBlockHeight(), m.restart.App.LastCommitID().Hash, blk.Height, blk.AppHash))
				}
			}
		}
		m.st.Eval("restart", fmt.Sprintf("%d/%x", blk.Height, blk.AppHash))
	}
	// crash between FinalizeBlock and Commit at every height
	if m.crash.Dead == "" {
		_, err := m.crash.Finalize(blk.Req)
		if err == nil {
			m.crash.Reopen() // uncommitted FinalizeBlock state is lost, as in a crash
			m.st.Ev("crash_points")
			if blk.Height == 1 {
				// nothing was ever committed: the consensus handshake runs InitChain again
				if _, ierr := m.crash.App.InitChain(w.InitChainReq()); ierr != nil {
					m.diverged(w, blk, "crash", "InitChain after crash: "+ierr.Error())
				}
			}
			if m.crash.App.LastBlockHeight() != blk.Height-1 {
				m.diverged(w, blk, "crash", fmt.Sprintf("after crash-reopen height %d, expected %d", m.crash.App.LastBlockHeight(), blk.Height-1))
			}
			var res *abci.ResponseFinalizeBlock
			res, err = m.crash.Apply(blk.Req)
			if err == nil {
				if d := chain.CompareResults(blk.Res, res); d != "" {
					m.diverged(w, blk, "crash", d)
					m.crash.Dead = "diverged"
				}
			}
		}
		if err != nil {
			m.diverged(w, blk, "crash", "replica failed: "+err.Error())
		}
		m.st.Eval("crash", fmt.Sprintf("%d/%x", blk.Height, blk.AppHash))
	}
}

func (m *C19) AfterCommit(w *chain.World, blk *chain.BlockRecord) {
	if !m.inited {
		m.init(w)
	}
	m.feed(w, blk)
	if blk.Height%50 == 0 {
		nt := 0
		for _, t := range blk.Txs {
			_ = t
			nt++
		}
		m.st.Sample(map[string]interface{}{"height": blk.Height, "app_hash": fmt.Sprintf("%X", blk.AppHash), "txs": nt, "ops": OpsOf(blk), "replicas": []string{"primary(probed)", "plain", "restart-every-height", "crash-before-commit-every-height"}})
	}
}

// ---------------------------------------------------------------------------------------------
// C18 (second sentence): substitution twin. A second replica receives the same blocks except that
// every tx that failed in message execution is replaced by a trivially failing tx with the same
// signer, sequence and fee. Anything a failed tx leaked into state shows up as a hash difference.

type C18Twin struct {
	st     *Stats
	twin   *chain.Replica
	inited bool
	Prop   string
	Rule   string
}

func NewC18Twin() *C18Twin {
	return &C18Twin{st: NewStats("C18"), Prop: "C18", Rule: "C18.failed_tx_rolled_back"}
}

// NewTwinFor builds the same substitution twin reporting under another property (C17 uses it for
// rejected governance-only / owner-scoped messages sent through real blocks).
func NewTwinFor(prop, rule string) *C18Twin {
	return &C18Twin{st: NewStats(prop), Prop: prop, Rule: rule}
}
func (m *C18Twin) Stats() *Stats { return m.st }
func (m *C18Twin) Close() {
	if m.twin != nil {
		m.twin.Close()
	}
}

func msgFailure(t *chain.TxRecord) bool {
	return t.Result != nil && t.Result.Code != 0 && strings.HasPrefix(t.Result.Log, "failed to execute message")
}

func (m *C18Twin) feed(w *chain.World, blk *chain.BlockRecord) {
	if blk.Res == nil || m.twin.Dead != "" {
		return
	}
	req := *blk.Req
	req.Txs = make([][]byte, len(blk.Req.Txs))
	subst := 0
	kinds := []string{}
	for i, t := range blk.Txs {
		req.Txs[i] = t.Raw
		if !msgFailure(t) {
			continue
		}
		raw, err := chain.SignTx(w.App.TxConfig(), chain.ChainID, t.Signer.Priv, t.Num, t.Seq, t.Fee,
			&banktypes.MsgSend{FromAddress: t.Signer.S(), ToAddress: t.Signer.S(), Amount: sdk.NewCoins(sdk.NewCoin("uusdc", math.NewIntWithDecimal(1, 30)))})
		if err != nil {
			continue
		}
		req.Txs[i] = raw
		subst++
		kinds = append(kinds, strings.TrimPrefix(t.MsgType(), "/elys."))
	}
	res, err := m.twin.Apply(&req)
	m.st.Ev("twin_blocks")
	if subst > 0 {
		m.st.Events["substituted_failed_txs"] += int64(subst)
		if m.st.Eval("twin", fmt.Sprintf("%d/%x", blk.Height, blk.AppHash)) {
			m.st.Sample(map[string]interface{}{"height": blk.Height, "substituted": kinds, "app_hash_equal": err == nil && bytes.Equal(res.AppHash, blk.AppHash)})
		}
	}
	if err != nil {
		w.Report(chain.Violation{Property: m.Prop, Rule: m.Rule, Scope: sc("kind", "twin_failed"), Ops: kinds, Height: blk.Height, Detail: fmt.Sprintf("height %d: twin failed: %v", blk.Height, err)})
		return
	}
	if !bytes.Equal(res.AppHash, blk.AppHash) {
		for i, t := range blk.Txs {
			if msgFailure(t) && res.TxResults[i].Code == 0 {
				kinds = append(kinds, "!substitute_succeeded")
			}
		}
		w.Report(chain.Violation{Property: m.Prop, Rule: m.Rule, Scope: sc("msgs", strings.Join(kinds, ",")), Ops: kinds, Relation: "apphash_differs_from_substitution_twin", Height: blk.Height,
			Detail: fmt.Sprintf("height %d: AppHash %X differs from the twin's %X in which the failed txs %v were replaced by a trivially failing tx of the same signer/sequence/fee -> a failed tx left something behind", blk.Height, blk.AppHash, res.AppHash, kinds)})
		m.twin.Dead = "diverged"
	}
}

func (m *C18Twin) AfterCommit(w *chain.World, blk *chain.BlockRecord) {
	if !m.inited {
		m.twin = chain.NewReplica(w, "twin", false)
		m.inited = true
		for _, b := range w.Blocks[:len(w.Blocks)-1] {
			m.feed(w, b)
		}
	}
	m.feed(w, blk)
}
