package mon

import (
	"fmt"
	"regexp"
	"strings"

	"verifharness/chain"
)

// C18 (first sentence): FinalizeBlock and Commit succeed for every block of every history.
type C18 struct {
	st *Stats
}

func NewC18() *C18           { return &C18{st: NewStats("C18")} }
func (m *C18) Stats() *Stats { return m.st }

var reNum = regexp.MustCompile(`[0-9]+`)
var reAddr = regexp.MustCompile(`elys1[0-9a-z]{20,}`)

// ErrClass normalises an error message into a class (numbers and addresses stripped).
func ErrClass(s string) string {
	s = reAddr.ReplaceAllString(s, "<addr>")
	s = reNum.ReplaceAllString(s, "#")
	if len(s) > 160 {
		s = s[:160]
	}
	return s
}

func (m *C18) AfterCommit(w *chain.World, blk *chain.BlockRecord) {
	ntx := len(blk.Txs)
	nfail := 0
	for _, t := range blk.Txs {
		if t.Result != nil && t.Result.Code != 0 {
			nfail++
		}
	}
	if m.st.Eval("block", fmt.Sprintf("%d/%x", blk.Height, blk.AppHash)) && (blk.Height%97 == 0 || blk.Err != "") {
		m.st.Sample(map[string]interface{}{"height": blk.Height, "time": blk.Time, "txs": ntx, "failed_txs": nfail, "error": blk.Err, "ops": OpsOf(blk)})
	}
	if blk.Err == "" {
		return
	}
	stack := blk.Stack
	// keep the frames of the application itself
	keep := []string{}
	for _, l := range strings.Split(stack, "\n") {
		if strings.Contains(l, "github.com/elys-network/elys/") && !strings.Contains(l, "\t") {
			f := strings.TrimSpace(l)
			if i := strings.Index(f, "("); i > 0 && !strings.HasPrefix(f[i:], "(*") {
				f = f[:i]
			} else if j := strings.LastIndex(f, "("); j > 0 {
				f = f[:j]
			}
			keep = append(keep, strings.TrimPrefix(f, "github.com/elys-network/elys/"))
		}
	}
	if len(keep) > 8 {
		keep = keep[:8]
	}
	w.Report(chain.Violation{Property: "C18", Rule: "C18.block_processing_succeeds", Scope: sc("error", ErrClass(blk.Err)), Ops: OpsOf(blk), Relation: "block_failed",
		Detail: fmt.Sprintf("height %d (time %d, %d txs): %s; app frames: %v", blk.Height, blk.Time, ntx, blk.Err, keep)})
}
