package mon

import (
	"fmt"
	"strings"

	"cosmossdk.io/math"
	sdk "github.com/cosmos/cosmos-sdk/types"
	"github.com/cosmos/cosmos-sdk/types/query"
	lpkeeper "github.com/elys-network/elys/x/leveragelp/keeper"
	lptypes "github.com/elys-network/elys/x/leveragelp/types"
	perpkeeper "github.com/elys-network/elys/x/perpetual/keeper"
	perptypes "github.com/elys-network/elys/x/perpetual/types"
	tstypes "github.com/elys-network/elys/x/tradeshield/types"

	"verifharness/chain"
)

// C10: others can force-close a position only when allowed; new positions start healthy.
//
// Layer L1 (boundary diff): every position / MTP and every owner's balances before and after each
// close-positions transaction and each leveragelp begin-block sweep.
// Layer L2 (justification): the monitor replays the request list entry by entry on a discarded
// branch of the pre-message state (advancing it with the module's own single-entry handler) and
// measures, immediately before each entry's turn, the implementation's own health after the same
// interest / funding update, the module's safety factor and the trigger comparison.

type just struct {
	list    string
	existed bool
	health  string
	sf      string
	trigger bool
	ok      bool
	note    string
}

type C10 struct {
	st *Stats
	// per-tx state
	levPre   map[string]lptypes.Position
	perpPre  map[string]perptypes.MTP
	balPre   map[string]map[string]math.Int
	justs    map[string]*just
	mod      string
	named    map[string]bool
	openPreL map[string]lptypes.Position
	openPreP map[string]perptypes.MTP
	openTx   *chain.TxRecord
}

func NewC10() *C10           { return &C10{st: NewStats("C10")} }
func (m *C10) Stats() *Stats { return m.st }

func lkey(addr string, id uint64) string { return fmt.Sprintf("%s/%d", addr, id) }

func (m *C10) snapLev(w *chain.World, ctx sdk.Context) map[string]lptypes.Position {
	out := map[string]lptypes.Position{}
	for _, p := range w.App.LeveragelpKeeper.GetAllPositions(ctx) {
		out[lkey(p.Address, p.Id)] = p
	}
	return out
}

func (m *C10) snapPerp(w *chain.World, ctx sdk.Context) map[string]perptypes.MTP {
	out := map[string]perptypes.MTP{}
	for _, p := range w.App.PerpetualKeeper.GetAllMTPs(ctx) {
		out[lkey(p.Address, p.Id)] = p
	}
	return out
}

func (m *C10) ownersBal(w *chain.World, ctx sdk.Context, owners map[string]bool) map[string]map[string]math.Int {
	out := map[string]map[string]math.Int{}
	for o := range owners {
		out[o] = balMap(w, ctx, o)
	}
	return out
}

// ---- leveragelp ------------------------------------------------------------------------------

func (m *C10) measureLev(w *chain.World, ctx sdk.Context, addr string, id uint64, list string) *just {
	k := w.App.LeveragelpKeeper
	j := &just{list: list}
	acc, err := sdk.AccAddressFromBech32(addr)
	if err != nil {
		return j
	}
	pos, err := k.GetPosition(ctx, acc, id)
	if err != nil {
		return j
	}
	j.existed = true
	sub, _ := ctx.CacheContext()
	sf := k.GetParams(sub).SafetyFactor
	j.sf = sf.String()
	h, herr := k.GetPositionHealth(sub, pos)
	if herr != nil {
		j.note = "health error: " + herr.Error()
	} else {
		j.health = h.String()
	}
	switch list {
	case "liquidate":
		debt := w.App.StablestakeKeeper.UpdateInterestAndGetDebt(sub, pos.GetPositionAddress())
		j.ok = herr == nil && h.LTE(sf) && !debt.GetTotalLiablities().IsZero()
	case "stop_loss":
		ammPool, perr := k.GetAmmPool(sub, pos.AmmPoolId)
		if perr == nil {
			lp, lerr := ammPool.LpTokenPrice(sub, w.App.OracleKeeper, w.App.AccountedPoolKeeper)
			if lerr == nil {
				j.trigger = !pos.StopLossPrice.IsNil() && pos.StopLossPrice.IsPositive() && lp.LTE(pos.StopLossPrice)
				j.note = fmt.Sprintf("lp price %s stop loss %s", lp, pos.StopLossPrice)
			}
		}
		j.ok = j.trigger
	}
	return j
}

// setJust records the measurement taken right before an entry's turn. A position named more than
// once in a request (twice in a list, or in two lists) is measured at every mention; once a mention
// has closed it, the later mentions find nothing, and "nothing there" must not replace the
// measurement that stood right before the step that did close it.
func (m *C10) setJust(key string, j *just) {
	if prev := m.justs[key]; prev != nil && prev.existed && !j.existed {
		m.st.Ev("position_named_again_after_its_close_in_the_same_request")
		return
	}
	m.justs[key] = j
}

func (m *C10) simulateLev(w *chain.World, ctx sdk.Context, msg *lptypes.MsgClosePositions) {
	ms := lpkeeper.NewMsgServerImpl(*w.App.LeveragelpKeeper)
	for _, v := range msg.Liquidate {
		m.setJust(lkey(v.Address, v.Id), m.measureLev(w, ctx, v.Address, v.Id, "liquidate"))
		m.named[lkey(v.Address, v.Id)] = true
		func() {
			defer func() { recover() }()
			ms.ClosePositions(ctx, &lptypes.MsgClosePositions{Creator: msg.Creator, Liquidate: []*lptypes.PositionRequest{v}})
		}()
	}
	for _, v := range msg.StopLoss {
		m.setJust(lkey(v.Address, v.Id), m.measureLev(w, ctx, v.Address, v.Id, "stop_loss"))
		m.named[lkey(v.Address, v.Id)] = true
		func() {
			defer func() { recover() }()
			ms.ClosePositions(ctx, &lptypes.MsgClosePositions{Creator: msg.Creator, StopLoss: []*lptypes.PositionRequest{v}})
		}()
	}
}

// sweepLev replays the begin-block sweep entry by entry: the page it will visit is read with the
// same exported calls (offset, NumberPerBlock, GetPositions) and each visited position is measured
// just before the module's own CheckAndLiquidate / CheckAndCloseAtStopLoss advances the branch.
func (m *C10) sweepLev(w *chain.World, ctx sdk.Context) {
	k := w.App.LeveragelpKeeper
	params := k.GetParams(ctx)
	if k.GetEpochPosition(ctx, k.GetEpochLength(ctx)) != 0 || !params.FallbackEnabled {
		return
	}
	offset, _ := k.GetOffset(ctx)
	positions, _, err := k.GetPositions(ctx, &query.PageRequest{Limit: uint64(params.NumberPerBlock), CountTotal: true, Offset: offset})
	if err != nil {
		return
	}
	for _, p := range positions {
		key := lkey(p.Address, p.Id)
		jl := m.measureLev(w, ctx, p.Address, p.Id, "liquidate")
		js := m.measureLev(w, ctx, p.Address, p.Id, "stop_loss")
		j := jl
		j.list = "sweep"
		j.trigger = js.trigger
		j.ok = jl.ok || js.ok
		j.note = js.note
		m.justs[key] = j
		m.named[key] = true
		pool, found := k.GetPool(ctx, p.AmmPoolId)
		if !found {
			continue
		}
		ammPool, perr := k.GetAmmPool(ctx, pool.AmmPoolId)
		if perr != nil {
			continue
		}
		func() {
			defer func() { recover() }()
			isHealthy, closeAttempted, _, err := k.CheckAndLiquidateUnhealthyPosition(ctx, p, pool, ammPool)
			if err == nil {
				return
			}
			if isHealthy && !closeAttempted {
				k.CheckAndCloseAtStopLoss(ctx, p, pool, ammPool)
			}
		}()
	}
}

func (m *C10) diffLev(w *chain.World, ctx sdk.Context, where string, ops []string, signer string) {
	post := m.snapLev(w, ctx)
	exempt := map[string]bool{signer: true}
	for key, pre := range m.levPre {
		p, alive := post[key]
		changed := !alive || !p.LeveragedLpAmount.Equal(pre.LeveragedLpAmount) || !p.Liabilities.Equal(pre.Liabilities) || !p.Collateral.Equal(pre.Collateral)
		j := m.justs[key]
		desc := "unchanged"
		if !alive {
			desc = "closed"
		} else if changed {
			desc = "altered"
		}
		if m.named[key] {
			m.st.Ev("lev_named/" + j.list + "/" + desc + fmt.Sprintf("/justified=%v", j.ok))
			if m.st.Eval("lev/"+key+"/"+where, fmt.Sprint(j.health, j.sf, j.trigger, desc)) {
				m.st.Sample(map[string]interface{}{"height": ctx.BlockHeight(), "module": "leveragelp", "at": where, "position": key[len(key)-6:], "list": j.list, "health": j.health, "safety_factor": j.sf, "trigger": j.trigger, "note": j.note, "outcome": desc})
			}
		}
		if changed {
			if j != nil && j.ok {
				exempt[pre.Address] = true
				continue
			}
			jd := "not named in the request"
			rel := "unnamed_position_changed"
			if j != nil {
				jd = fmt.Sprintf("list=%s health=%s safety_factor=%s trigger=%v %s", j.list, j.health, j.sf, j.trigger, j.note)
				rel = "healthy_untriggered_position_" + desc
			}
			w.Report(chain.Violation{Property: "C10", Rule: "C10.forced_close_justified", Scope: sc("module", "leveragelp", "list", listOf(j), "at", stepClass(where)), Ops: ops, Relation: rel,
				Detail: fmt.Sprintf("%s height %d: leveraged position %s of %s was %s by someone else (lp %s->%s liabilities %s->%s) but %s", where, ctx.BlockHeight(), key, pre.Address, desc, pre.LeveragedLpAmount, p.LeveragedLpAmount, pre.Liabilities, p.Liabilities, jd)})
		}
	}
	m.ownerFunds(w, ctx, where, ops, exempt, "leveragelp")
}

func listOf(j *just) string {
	if j == nil {
		return "none"
	}
	return j.list
}

func (m *C10) ownerFunds(w *chain.World, ctx sdk.Context, where string, ops []string, exempt map[string]bool, module string) {
	for o, pre := range m.balPre {
		if exempt[o] {
			continue
		}
		if d := diffBal(pre, balMap(w, ctx, o)); len(d) > 0 {
			w.Report(chain.Violation{Property: "C10", Rule: "C10.owner_funds_untouched", Scope: sc("module", module, "at", stepClass(where)), Ops: ops, Relation: "owner_balance_changed",
				Detail: fmt.Sprintf("%s height %d: balances of position owner %s changed by %s although none of its positions was justifiably force-closed", where, ctx.BlockHeight(), short(o), fmtDelta(d))})
		}
	}
}

// ---- perpetual -------------------------------------------------------------------------------

func (m *C10) measurePerp(w *chain.World, ctx sdk.Context, addr string, id uint64, list string) *just {
	k := w.App.PerpetualKeeper
	j := &just{list: list}
	acc, err := sdk.AccAddressFromBech32(addr)
	if err != nil {
		return j
	}
	mtp, err := k.GetMTP(ctx, acc, id)
	if err != nil {
		return j
	}
	j.existed = true
	sub, _ := ctx.CacheContext()
	sf := k.GetSafetyFactor(sub)
	j.sf = sf.String()
	switch list {
	case "liquidate":
		func() {
			defer func() {
				if r := recover(); r != nil {
					j.note = fmt.Sprint("panic while measuring: ", r)
				}
			}()
			pool, found := k.GetPool(sub, mtp.AmmPoolId)
			ammPool, perr := k.GetAmmPool(sub, mtp.AmmPoolId)
			if !found || perr != nil {
				j.note = "pool missing"
				return
			}
			base := "uusdc"
			if e, ok := w.App.AssetprofileKeeper.GetEntry(sub, "uusdc"); ok {
				base = e.Denom
			}
			// the same interest / funding update the handler performs before it looks at the health
			if tl, e := k.CalcMTPTakeProfitLiability(sub, mtp); e == nil {
				mtp.TakeProfitLiabilities = tl
			}
			mtp.UpdateMTPTakeProfitBorrowFactor()
			k.UpdateMTPBorrowInterestUnpaidLiability(sub, &mtp)
			if _, e := k.SettleMTPBorrowInterestUnpaidLiability(sub, &mtp, &pool, ammPool); e != nil {
				j.note = "interest settlement error: " + e.Error()
				return
			}
			if e := k.SettleFunding(sub, &mtp, &pool, ammPool); e != nil {
				j.note = "funding settlement error: " + e.Error()
				return
			}
			h, herr := k.GetMTPHealth(sub, mtp, ammPool, base)
			if herr != nil {
				j.note = "health error: " + herr.Error()
				return
			}
			j.health = h.String()
			j.ok = h.LTE(sf)
		}()
	case "stop_loss", "take_profit":
		price, perr := k.GetAssetPrice(sub, mtp.TradingAsset)
		if perr != nil {
			j.note = "no price"
			return j
		}
		long := mtp.Position == perptypes.Position_LONG
		if list == "stop_loss" {
			sl := mtp.StopLossPrice
			if !sl.IsNil() && sl.IsPositive() {
				j.trigger = (long && price.LTE(sl)) || (!long && price.GTE(sl))
			}
			j.note = fmt.Sprintf("%s price %s stop loss %s", mtp.Position, price, sl)
		} else {
			tp := mtp.TakeProfitPrice
			if !tp.IsNil() && tp.IsPositive() {
				j.trigger = (long && price.GTE(tp)) || (!long && price.LTE(tp))
			}
			j.note = fmt.Sprintf("%s price %s take profit %s", mtp.Position, price, tp)
		}
		j.ok = j.trigger
	}
	return j
}

func (m *C10) simulatePerp(w *chain.World, ctx sdk.Context, msg *perptypes.MsgClosePositions) {
	ms := perpkeeper.NewMsgServerImpl(*w.App.PerpetualKeeper)
	step := func(v perptypes.PositionRequest, list string, single *perptypes.MsgClosePositions) {
		m.setJust(lkey(v.Address, v.Id), m.measurePerp(w, ctx, v.Address, v.Id, list))
		m.named[lkey(v.Address, v.Id)] = true
		func() {
			defer func() { recover() }()
			ms.ClosePositions(ctx, single)
		}()
	}
	for _, v := range msg.Liquidate {
		step(v, "liquidate", &perptypes.MsgClosePositions{Creator: msg.Creator, Liquidate: []perptypes.PositionRequest{v}})
	}
	for _, v := range msg.StopLoss {
		step(v, "stop_loss", &perptypes.MsgClosePositions{Creator: msg.Creator, StopLoss: []perptypes.PositionRequest{v}})
	}
	for _, v := range msg.TakeProfit {
		step(v, "take_profit", &perptypes.MsgClosePositions{Creator: msg.Creator, TakeProfit: []perptypes.PositionRequest{v}})
	}
}

func (m *C10) diffPerp(w *chain.World, ctx sdk.Context, where string, ops []string, signer string) {
	post := m.snapPerp(w, ctx)
	exempt := map[string]bool{signer: true}
	for key, pre := range m.perpPre {
		p, alive := post[key]
		j := m.justs[key]
		// size, collateral and debt principal; custody may only shrink (interest / funding that had accrued)
		changed := !alive || !p.Liabilities.Equal(pre.Liabilities) || !p.Collateral.Equal(pre.Collateral)
		if alive && j == nil && !p.Custody.Equal(pre.Custody) {
			changed = true // a position the request does not name must not be touched at all
		}
		desc := "unchanged"
		if !alive {
			desc = "closed"
		} else if changed {
			desc = "altered"
		}
		if m.named[key] {
			m.st.Ev("perp_named/" + j.list + "/" + desc + fmt.Sprintf("/justified=%v", j.ok))
			if m.st.Eval("perp/"+key+"/"+where, fmt.Sprint(j.health, j.sf, j.trigger, desc)) {
				m.st.Sample(map[string]interface{}{"height": ctx.BlockHeight(), "module": "perpetual", "at": where, "mtp": key[len(key)-6:], "side": pre.Position.String(), "list": j.list, "health": j.health, "safety_factor": j.sf, "trigger": j.trigger, "note": j.note, "outcome": desc})
			}
		}
		if changed {
			if j != nil && j.ok {
				exempt[pre.Address] = true
				continue
			}
			jd := "not named in the request"
			rel := "unnamed_position_changed"
			if j != nil {
				jd = fmt.Sprintf("list=%s health=%s safety_factor=%s trigger=%v %s", j.list, j.health, j.sf, j.trigger, j.note)
				rel = "healthy_untriggered_position_" + desc
			}
			w.Report(chain.Violation{Property: "C10", Rule: "C10.forced_close_justified", Scope: sc("module", "perpetual", "list", listOf(j), "side", pre.Position.String(), "at", stepClass(where)), Ops: ops, Relation: rel,
				Detail: fmt.Sprintf("%s height %d: MTP %s (%s) of %s was %s by someone else (liabilities %s->%s collateral %s->%s custody %s->%s) but %s", where, ctx.BlockHeight(), key, pre.Position, pre.Address, desc, pre.Liabilities, p.Liabilities, pre.Collateral, p.Collateral, pre.Custody, p.Custody, jd)})
		}
	}
	m.ownerFunds(w, ctx, where, ops, exempt, "perpetual")
}

// ---- probes ----------------------------------------------------------------------------------

func (m *C10) reset() {
	m.levPre, m.perpPre, m.balPre, m.justs, m.named, m.mod = nil, nil, nil, map[string]*just{}, map[string]bool{}, ""
}

func (m *C10) PreMsg(w *chain.World, ctx sdk.Context, tx *chain.TxRecord, msgIdx int, msg sdk.Msg, typeURL string) {
	if tx == nil || msg == nil || len(tx.Msgs) != 1 {
		return
	}
	switch x := msg.(type) {
	case *lptypes.MsgClosePositions:
		m.reset()
		m.mod = "leveragelp"
		m.levPre = m.snapLev(w, ctx)
		owners := map[string]bool{}
		for _, p := range m.levPre {
			owners[p.Address] = true
		}
		m.balPre = m.ownersBal(w, ctx, owners)
		m.simulateLev(w, ctx, x)
	case *perptypes.MsgClosePositions:
		m.reset()
		m.mod = "perpetual"
		m.perpPre = m.snapPerp(w, ctx)
		owners := map[string]bool{}
		for _, p := range m.perpPre {
			owners[p.Address] = true
		}
		m.balPre = m.ownersBal(w, ctx, owners)
		m.simulatePerp(w, ctx, x)
	case *lptypes.MsgOpen, *perptypes.MsgOpen, *tstypes.MsgExecuteOrders:
		m.openPreL, m.openPreP, m.openTx = m.snapLev(w, ctx), m.snapPerp(w, ctx), tx
	}
}

func (m *C10) PostTx(w *chain.World, ctx sdk.Context, tx *chain.TxRecord, success bool) {
	if tx == nil || len(tx.Msgs) != 1 {
		return
	}
	mt := strings.TrimPrefix(tx.MsgType(), "/elys.")
	switch tx.Msgs[0].(type) {
	case *lptypes.MsgClosePositions:
		if success && m.mod == "leveragelp" {
			m.diffLev(w, ctx, "tx "+mt, []string{mt}, tx.Signer.S())
		}
		m.reset()
	case *perptypes.MsgClosePositions:
		if success && m.mod == "perpetual" {
			m.diffPerp(w, ctx, "tx "+mt, []string{mt}, tx.Signer.S())
		}
		m.reset()
	case *lptypes.MsgOpen, *perptypes.MsgOpen, *tstypes.MsgExecuteOrders:
		if success && m.openTx == tx {
			m.checkOpens(w, ctx, mt)
		}
		m.openPreL, m.openPreP, m.openTx = nil, nil, nil
	}
}

func (m *C10) checkOpens(w *chain.World, ctx sdk.Context, mt string) {
	lk, pk := w.App.LeveragelpKeeper, w.App.PerpetualKeeper
	band := math.LegacyMustNewDecFromStr("1.0")
	for key, p := range m.snapLev(w, ctx) {
		pre, existed := m.openPreL[key]
		if existed && pre.LeveragedLpAmount.Equal(p.LeveragedLpAmount) && pre.Liabilities.Equal(p.Liabilities) {
			continue
		}
		sf := lk.GetParams(ctx).SafetyFactor
		sub, _ := ctx.CacheContext()
		h, err := lk.GetPositionHealth(sub, p)
		m.st.Ev("lev_open_checked")
		if m.st.Eval("levopen/"+key, fmt.Sprint(p.LeveragedLpAmount, h)) {
			m.st.Sample(map[string]interface{}{"height": ctx.BlockHeight(), "module": "leveragelp", "op": mt, "consolidated": existed, "stored_health": decStr(p.PositionHealth), "recomputed_health": h.String(), "safety_factor": sf.String()})
		}
		if !p.PositionHealth.IsNil() && !p.PositionHealth.IsZero() && p.PositionHealth.LTE(sf) {
			w.Report(chain.Violation{Property: "C10", Rule: "C10.open_starts_healthy", Scope: sc("module", "leveragelp", "kind", "stored"), Ops: []string{mt}, Relation: "stored_health<=safety_factor",
				Detail: fmt.Sprintf("height %d: %s left position %s with stored health %s <= safety factor %s", ctx.BlockHeight(), mt, key, p.PositionHealth, sf)})
		}
		if err == nil && h.LTE(sf.Mul(band)) {
			w.Report(chain.Violation{Property: "C10", Rule: "C10.open_starts_healthy", Scope: sc("module", "leveragelp", "kind", "recomputed"), Ops: []string{mt}, Relation: "recomputed_health<=safety_factor",
				Detail: fmt.Sprintf("height %d: %s left position %s with health %s (recomputed after the tx) <= safety factor %s", ctx.BlockHeight(), mt, key, h, sf)})
		}
	}
	for key, p := range m.snapPerp(w, ctx) {
		pre, existed := m.openPreP[key]
		if existed && pre.Liabilities.Equal(p.Liabilities) && pre.Custody.Equal(p.Custody) && pre.Collateral.Equal(p.Collateral) {
			continue
		}
		sf := pk.GetSafetyFactor(ctx)
		sub, _ := ctx.CacheContext()
		ammPool, perr := pk.GetAmmPool(sub, p.AmmPoolId)
		m.st.Ev("perp_open_checked")
		var h math.LegacyDec
		var herr error = perr
		if perr == nil {
			// the health a liquidation check in this very block would find: borrow interest accrued
			// up to now (a no-op when the handler has just accrued it, as opening and consolidating do)
			pk.UpdateMTPBorrowInterestUnpaidLiability(sub, &p)
			h, herr = pk.GetMTPHealth(sub, p, ammPool, "uusdc")
		}
		if m.st.Eval("perpopen/"+key, fmt.Sprint(p.Custody, p.Liabilities)) {
			m.st.Sample(map[string]interface{}{"height": ctx.BlockHeight(), "module": "perpetual", "op": mt, "side": p.Position.String(), "consolidated": existed, "stored_health": decStr(p.MtpHealth), "recomputed_health": decStr(h), "safety_factor": sf.String()})
		}
		if !p.MtpHealth.IsNil() && p.MtpHealth.LTE(sf) {
			w.Report(chain.Violation{Property: "C10", Rule: "C10.open_starts_healthy", Scope: sc("module", "perpetual", "kind", "stored", "side", p.Position.String()), Ops: []string{mt}, Relation: "stored_health<=safety_factor",
				Detail: fmt.Sprintf("height %d: %s left MTP %s with stored health %s <= safety factor %s", ctx.BlockHeight(), mt, key, p.MtpHealth, sf)})
		}
		if herr == nil && h.LTE(sf.Mul(band)) {
			w.Report(chain.Violation{Property: "C10", Rule: "C10.open_starts_healthy", Scope: sc("module", "perpetual", "kind", "recomputed", "side", p.Position.String()), Ops: []string{mt}, Relation: "recomputed_health<=safety_factor",
				Detail: fmt.Sprintf("height %d: %s left MTP %s with health %s (recomputed after the tx) <= safety factor %s", ctx.BlockHeight(), mt, key, h, sf)})
		}
	}
}

func decStr(d math.LegacyDec) string {
	if d.IsNil() {
		return "nil"
	}
	return d.String()
}

func (m *C10) AroundModule(w *chain.World, ctx sdk.Context, module, phase string, before bool) {
	if module != "leveragelp" || phase != "begin" {
		return
	}
	if before {
		m.reset()
		m.mod = "sweep"
		m.levPre = m.snapLev(w, ctx)
		if len(m.levPre) == 0 {
			return
		}
		owners := map[string]bool{}
		for _, p := range m.levPre {
			owners[p.Address] = true
		}
		m.balPre = m.ownersBal(w, ctx, owners)
		m.sweepLev(w, ctx)
		return
	}
	if m.mod == "sweep" && len(m.levPre) > 0 {
		m.diffLev(w, ctx, "phase leveragelp.begin", nil, "")
	}
	m.reset()
}
