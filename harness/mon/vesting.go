package mon

import (
	"fmt"
	"strings"

	"cosmossdk.io/math"
	sdk "github.com/cosmos/cosmos-sdk/types"
	commitmenttypes "github.com/elys-network/elys/x/commitment/types"

	"verifharness/chain"
)

// C14: a vesting schedule releases exactly its total, monotonically, and never more.
// The reference is the linear block schedule floor(Total*min(h-start,N)/N) evaluated by the
// monitor itself on the entries it saw before the message; the implementation's VestedSoFar is
// never called.

type vestEntry struct {
	Total, Claimed math.Int
	Start, N       int64
	Denom          string // the denom the entry releases
}

type vestSnap struct {
	entries []vestEntry
	eden    math.Int            // claimable (claimed-bucket) Eden
	elys    math.Int            // liquid uelys
	wallet  map[string]math.Int // every liquid balance
	claimed map[string]math.Int // claimed bucket, every denom
	h       int64
}

type C14 struct {
	st       *Stats
	pre      map[string]*vestSnap // signer -> snapshot before its message
	preTx    map[*chain.TxRecord]*vestSnap
	edenIn   map[string]math.Int
	released map[string]math.Int
	returned map[string]math.Int
	last     map[string]string // account -> rendering of entries at previous commit
	touched  map[string]bool   // accounts with a successful vesting-type tx in the current block
}

func NewC14() *C14 {
	return &C14{st: NewStats("C14"), preTx: map[*chain.TxRecord]*vestSnap{}, pre: map[string]*vestSnap{}, edenIn: map[string]math.Int{}, released: map[string]math.Int{}, returned: map[string]math.Int{}, last: map[string]string{}, touched: map[string]bool{}}
}
func (m *C14) Stats() *Stats { return m.st }

func snapVest(w *chain.World, ctx sdk.Context, addr sdk.AccAddress) *vestSnap {
	c := w.App.CommitmentKeeper.GetCommitments(ctx, addr)
	s := &vestSnap{eden: c.GetClaimedForDenom("ueden"), elys: w.App.BankKeeper.GetBalance(ctx, addr, "uelys").Amount, h: ctx.BlockHeight(), wallet: balMap(w, ctx, addr.String()), claimed: map[string]math.Int{}}
	for _, cl := range c.Claimed {
		s.claimed[cl.Denom] = cl.Amount
	}
	for _, v := range c.VestingTokens {
		s.entries = append(s.entries, vestEntry{Total: v.TotalAmount, Claimed: v.ClaimedAmount, Start: v.StartBlock, N: v.NumBlocks, Denom: v.Denom})
	}
	return s
}

func (s *vestSnap) String() string {
	var sb strings.Builder
	for _, e := range s.entries {
		if e.Denom == "" || e.Denom == "uelys" {
			fmt.Fprintf(&sb, "[T=%s C=%s s=%d N=%d]", e.Total, e.Claimed, e.Start, e.N)
		} else {
			fmt.Fprintf(&sb, "[T=%s C=%s s=%d N=%d %s]", e.Total, e.Claimed, e.Start, e.N, e.Denom)
		}
	}
	return sb.String()
}

func (s *vestSnap) outstanding() math.Int {
	t := math.ZeroInt()
	for _, e := range s.entries {
		if e.Denom == "" || e.Denom == "uelys" {
			t = t.Add(e.Total.Sub(e.Claimed))
		}
	}
	return t
}

// schedule: what the entry has released in total at height h according to the linear schedule.
func schedule(e vestEntry, h int64) math.Int {
	el := h - e.Start
	if e.N <= 0 || el >= e.N {
		return e.Total
	}
	if el < 0 {
		el = 0
	}
	return e.Total.MulRaw(el).QuoRaw(e.N)
}

func isVestMsg(msg sdk.Msg) bool {
	switch msg.(type) {
	case *commitmenttypes.MsgVest, *commitmenttypes.MsgClaimVesting, *commitmenttypes.MsgCancelVest, *commitmenttypes.MsgVestNow, *commitmenttypes.MsgVestLiquid:
		return true
	}
	return false
}

func (m *C14) PreMsg(w *chain.World, ctx sdk.Context, tx *chain.TxRecord, msgIdx int, msg sdk.Msg, typeURL string) {
	if tx == nil || msg == nil || !isVestMsg(msg) {
		return
	}
	m.pre[tx.Signer.S()] = snapVest(w, ctx, tx.Signer.Addr)
	m.preTx[tx] = m.pre[tx.Signer.S()]
}

func (m *C14) viol(w *chain.World, rule, who string, op string, detail string) {
	w.Report(chain.Violation{Property: "C14", Rule: rule, Scope: sc("op", op), Ops: []string{op}, Detail: who + ": " + detail})
}

func (m *C14) PostTx(w *chain.World, ctx sdk.Context, tx *chain.TxRecord, success bool) {
	if tx == nil || len(tx.Msgs) != 1 || !isVestMsg(tx.Msgs[0]) {
		return
	}
	who := tx.Signer.S()
	pre := m.pre[who]
	delete(m.pre, who)
	if pre == nil {
		return
	}
	h := ctx.BlockHeight()
	op := strings.TrimPrefix(tx.MsgType(), "/elys.commitment.")
	if !success {
		return // failures (including panics, for which no post handler runs) are judged from the block log
	}
	m.touched[who] = true
	post := snapVest(w, ctx, tx.Signer.Addr)
	m.st.Ev("op/" + op)
	if m.st.Eval(op+"/"+who, pre.String()+"->"+post.String()) {
		m.st.Sample(map[string]interface{}{"height": h, "who": tx.Signer.Name, "op": op, "before": pre.String(), "after": post.String(), "eden_before": pre.eden.String(), "eden_after": post.eden.String(), "elys_delta": post.elys.Sub(pre.elys).String()})
	}
	switch x := tx.Msgs[0].(type) {
	case *commitmenttypes.MsgClaimVesting:
		expBy := map[string]math.Int{}
		want := []vestEntry{}
		for _, e := range pre.entries {
			sched := schedule(e, h)
			nc := sched.Sub(e.Claimed)
			if nc.IsNegative() { // total was reduced by a cancel after a claim: nothing until the schedule catches up
				nc = math.ZeroInt()
			}
			dn := e.Denom
			if dn == "" {
				dn = "uelys"
			}
			addTo(expBy, dn, nc)
			e2 := e
			e2.Claimed = e.Claimed.Add(nc)
			if e2.Claimed.GT(e2.Total) {
				m.viol(w, "C14.released_le_total", tx.Signer.Name, op, fmt.Sprintf("entry %v would release more than its total", e))
			}
			if !e2.Claimed.Equal(e2.Total) {
				want = append(want, e2)
			}
		}
		exp := zi(expBy, "uelys")
		got := post.elys.Sub(pre.elys)
		if !got.Equal(exp) {
			m.viol(w, "C14.claim_releases_schedule", tx.Signer.Name, op, fmt.Sprintf("height %d: claim credited %s uelys, linear schedule says %s; entries before %s", h, got, exp, pre))
		}
		for dn, e := range expBy {
			if dn == "uelys" {
				continue
			}
			g2 := zi(post.wallet, dn).Sub(zi(pre.wallet, dn))
			if !g2.Equal(e) {
				m.viol(w, "C14.claim_releases_schedule", tx.Signer.Name, op, fmt.Sprintf("height %d: claim credited %s %s, linear schedule says %s; entries before %s", h, g2, dn, e, pre))
			}
		}
		ws := (&vestSnap{entries: want}).String()
		if ws != post.String() {
			m.viol(w, "C14.claim_updates_entries", tx.Signer.Name, op, fmt.Sprintf("height %d: entries after claim %s, expected %s (before %s)", h, post, ws, pre))
		}
		if !post.eden.Equal(pre.eden) {
			m.viol(w, "C14.claim_leaves_eden", tx.Signer.Name, op, fmt.Sprintf("claimable Eden changed %s -> %s in a claim", pre.eden, post.eden))
		}
		addTo(m.released, who, got)
	case *commitmenttypes.MsgVestLiquid:
		// liquid tokens of the base denom are deposited and a new entry releases the vesting denom
		if !zi(pre.wallet, x.Denom).Sub(zi(post.wallet, x.Denom)).Equal(x.Amount) {
			m.viol(w, "C14.vest_liquid_takes_exact_amount", tx.Signer.Name, op, fmt.Sprintf("vest-liquid %s%s: wallet %s -> %s", x.Amount, x.Denom, zi(pre.wallet, x.Denom), zi(post.wallet, x.Denom)))
		}
		if len(post.entries) != len(pre.entries)+1 || !post.entries[len(post.entries)-1].Total.Equal(x.Amount) || !post.entries[len(post.entries)-1].Claimed.IsZero() {
			m.viol(w, "C14.vest_creates_entry", tx.Signer.Name, op, fmt.Sprintf("entries %s -> %s", pre, post))
		}
		return
	case *commitmenttypes.MsgVest:
		if x.Denom != "ueden" {
			return
		}
		addTo(m.edenIn, who, x.Amount)
		if !pre.eden.Sub(post.eden).Equal(x.Amount) {
			m.viol(w, "C14.vest_takes_exact_eden", tx.Signer.Name, op, fmt.Sprintf("vest %s: claimable Eden %s -> %s", x.Amount, pre.eden, post.eden))
		}
		if len(post.entries) != len(pre.entries)+1 {
			m.viol(w, "C14.vest_creates_entry", tx.Signer.Name, op, fmt.Sprintf("entries %s -> %s", pre, post))
		} else {
			ne := post.entries[len(post.entries)-1]
			if !ne.Total.Equal(x.Amount) || !ne.Claimed.IsZero() || ne.Start != h {
				m.viol(w, "C14.vest_creates_entry", tx.Signer.Name, op, fmt.Sprintf("new entry %v for vest of %s at height %d", ne, x.Amount, h))
			}
			if (&vestSnap{entries: post.entries[:len(pre.entries)]}).String() != pre.String() {
				m.viol(w, "C14.vest_leaves_other_entries", tx.Signer.Name, op, fmt.Sprintf("entries %s -> %s", pre, post))
			}
		}
		if !post.elys.Equal(pre.elys) {
			m.viol(w, "C14.vest_pays_nothing", tx.Signer.Name, op, fmt.Sprintf("uelys %s -> %s in a vest", pre.elys, post.elys))
		}
		vi, _ := w.App.CommitmentKeeper.GetVestingInfo(ctx, "ueden")
		if vi != nil && int64(len(post.entries)) > vi.NumMaxVestings {
			m.viol(w, "C14.max_vestings", tx.Signer.Name, op, fmt.Sprintf("%d entries > NumMaxVestings %d", len(post.entries), vi.NumMaxVestings))
		}
	case *commitmenttypes.MsgCancelVest:
		addTo(m.returned, who, x.Amount)
		if !post.eden.Sub(pre.eden).Equal(x.Amount) {
			m.viol(w, "C14.cancel_returns_exact_eden", tx.Signer.Name, op, fmt.Sprintf("cancel %s: claimable Eden %s -> %s", x.Amount, pre.eden, post.eden))
		}
		if !pre.outstanding().Sub(post.outstanding()).Equal(x.Amount) {
			m.viol(w, "C14.cancel_reduces_unreleased_exactly", tx.Signer.Name, op, fmt.Sprintf("cancel %s: unreleased %s -> %s; entries %s -> %s", x.Amount, pre.outstanding(), post.outstanding(), pre, post))
		}
		if !post.elys.Equal(pre.elys) {
			m.viol(w, "C14.cancel_pays_nothing", tx.Signer.Name, op, fmt.Sprintf("uelys %s -> %s in a cancel", pre.elys, post.elys))
		}
		// a cancel only takes unreleased amounts away: the entries that remain keep their own start,
		// length, denom and released counter (they are a subsequence of the entries before)
		j := 0
		for _, e := range post.entries {
			found := false
			for j < len(pre.entries) {
				p := pre.entries[j]
				j++
				if p.Start == e.Start && p.N == e.N && p.Denom == e.Denom && p.Claimed.Equal(e.Claimed) && e.Total.LTE(p.Total) {
					found = true
					break
				}
			}
			if !found {
				m.viol(w, "C14.cancel_keeps_schedules", tx.Signer.Name, op, fmt.Sprintf("height %d: cancel %s changed the schedule of a remaining entry: entries %s -> %s", h, x.Amount, pre, post))
				break
			}
		}
	case *commitmenttypes.MsgVestNow:
		vi, _ := w.App.CommitmentKeeper.GetVestingInfo(ctx, x.Denom)
		if vi != nil && vi.VestNowFactor.IsPositive() {
			exp := x.Amount.Quo(vi.VestNowFactor)
			if !post.elys.Sub(pre.elys).Equal(exp) {
				m.viol(w, "C14.vest_now_pays_amount_over_factor", tx.Signer.Name, op, fmt.Sprintf("vest-now %s factor %s: uelys +%s expected +%s", x.Amount, vi.VestNowFactor, post.elys.Sub(pre.elys), exp))
			}
		}
		if !pre.eden.Sub(post.eden).Equal(x.Amount) {
			m.viol(w, "C14.vest_now_takes_exact_eden", tx.Signer.Name, op, fmt.Sprintf("vest-now %s: claimable Eden %s -> %s", x.Amount, pre.eden, post.eden))
		}
		if pre.String() != post.String() {
			m.viol(w, "C14.vest_now_leaves_entries", tx.Signer.Name, op, fmt.Sprintf("entries %s -> %s", pre, post))
		}
	}
	// conservation: Eden put in == released + returned + still vesting
	in, rel, ret := zi(m.edenIn, who), zi(m.released, who), zi(m.returned, who)
	m.st.Eval("conservation/"+who, in.String()+"/"+rel.String()+"/"+ret.String())
	if !in.Equal(rel.Add(ret).Add(post.outstanding())) {
		m.viol(w, "C14.conservation", tx.Signer.Name, op, fmt.Sprintf("Eden vested %s != released %s + returned %s + still vesting %s", in, rel, ret, post.outstanding()))
		// resynchronise
		m.edenIn[who] = rel.Add(ret).Add(post.outstanding())
	}
}

func (m *C14) AfterCommit(w *chain.World, blk *chain.BlockRecord) {
	// claiming what has vested always succeeds
	for _, t := range blk.Txs {
		pre := m.preTx[t]
		if pre == nil || t.Result == nil || t.Result.Code == 0 {
			continue
		}
		if _, ok := t.Msgs[0].(*commitmenttypes.MsgClaimVesting); ok && len(pre.entries) > 0 {
			m.st.Eval("claim_fail/"+t.Signer.S(), fmt.Sprint(blk.Height))
			lg := t.Result.Log
			if i := strings.Index(lg, "\n"); i > 0 {
				lg = lg[:i]
			}
			cls := "error"
			if strings.Contains(lg, "recovered") {
				cls = "panic: " + ErrClass(lg)
			}
			w.Report(chain.Violation{Property: "C14", Rule: "C14.claim_always_succeeds", Scope: sc("class", cls), Ops: []string{"MsgClaimVesting"}, Height: blk.Height,
				Detail: fmt.Sprintf("%s: MsgClaimVesting failed at height %d (%s) with vesting entries %s", t.Signer.Name, blk.Height, lg, pre)})
		}
	}
	m.preTx = map[*chain.TxRecord]*vestSnap{}
	if w.Dead {
		return
	}
	ctx := w.ReadCtx()
	for _, c := range w.App.CommitmentKeeper.GetAllCommitments(ctx) {
		s := &vestSnap{}
		for _, v := range c.VestingTokens {
			s.entries = append(s.entries, vestEntry{Total: v.TotalAmount, Claimed: v.ClaimedAmount, Start: v.StartBlock, N: v.NumBlocks, Denom: v.Denom})
			if v.ClaimedAmount.GT(v.TotalAmount) || v.ClaimedAmount.IsNegative() {
				m.viol(w, "C14.released_le_total", c.Creator, "state", fmt.Sprintf("stored entry claimed %s total %s", v.ClaimedAmount, v.TotalAmount))
			}
		}
		r := s.String()
		// module accounts are vested for by the protocol itself (the provider reward account: estaking
		// claims and re-vests for it at every provider-vesting epoch): only users' entries are judged
		if prev, ok := m.last[c.Creator]; ok && prev != r && !m.touched[c.Creator] && w.ActorByAddr(c.Creator) != nil {
			m.viol(w, "C14.entries_change_only_by_owner_ops", c.Creator, "block", fmt.Sprintf("height %d: vesting entries changed %s -> %s without a vesting message of the owner (ops %v)", w.Height, prev, r, OpsOf(blk)))
		}
		m.last[c.Creator] = r
	}
	m.touched = map[string]bool{}
}
