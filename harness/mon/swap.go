package mon

import (
	"fmt"
	"sort"
	"strings"

	"cosmossdk.io/math"
	sdk "github.com/cosmos/cosmos-sdk/types"
	ammtypes "github.com/elys-network/elys/x/amm/types"

	"verifharness/chain"
)

// C04: a swap request accepted in a block is executed at most once, at the end of that block,
// exactly as requested within the user's limit, or changes nothing.

type swapReq struct {
	tx        *chain.TxRecord
	kind      string // in | out
	sender    string
	recipient string
	denomIn   string
	denomOut  string
	amountIn  math.Int // exact-in: stated input; exact-out: stated maximum
	amountOut math.Int // exact-in: stated minimum; exact-out: stated output
	hops      int
	accepted  bool
	pre       map[string]map[string]math.Int // addr -> balances before the message
	msgType   string
}

type C04 struct {
	st      *Stats
	reqs    []*swapReq
	endPre  map[string]map[string]math.Int
	sawSwap bool
}

func NewC04() *C04           { return &C04{st: NewStats("C04")} }
func (m *C04) Stats() *Stats { return m.st }

func balMap(w *chain.World, ctx sdk.Context, addr string) map[string]math.Int {
	out := map[string]math.Int{}
	a, err := sdk.AccAddressFromBech32(addr)
	if err != nil {
		return out
	}
	for _, c := range w.App.BankKeeper.GetAllBalances(ctx, a) {
		out[c.Denom] = c.Amount
	}
	return out
}

func diffBal(before, after map[string]math.Int) map[string]math.Int {
	out := map[string]math.Int{}
	for d, v := range after {
		if x := v.Sub(zi(before, d)); !x.IsZero() {
			out[d] = x
		}
	}
	for d, v := range before {
		if _, ok := after[d]; !ok && !v.IsZero() {
			out[d] = v.Neg()
		}
	}
	return out
}

func fmtDelta(m map[string]math.Int) string {
	ks := []string{}
	for k := range m {
		ks = append(ks, k)
	}
	sort.Strings(ks)
	s := []string{}
	for _, k := range ks {
		s = append(s, m[k].String()+k)
	}
	if len(s) == 0 {
		return "0"
	}
	return strings.Join(s, ",")
}

func parseSwap(msg sdk.Msg) *swapReq {
	switch x := msg.(type) {
	case *ammtypes.MsgSwapExactAmountIn:
		if len(x.Routes) == 0 {
			return nil
		}
		r := &swapReq{kind: "in", sender: x.Sender, recipient: x.Recipient, denomIn: x.TokenIn.Denom, denomOut: x.Routes[len(x.Routes)-1].TokenOutDenom, amountIn: x.TokenIn.Amount, amountOut: x.TokenOutMinAmount, hops: len(x.Routes)}
		return r
	case *ammtypes.MsgSwapExactAmountOut:
		if len(x.Routes) == 0 {
			return nil
		}
		r := &swapReq{kind: "out", sender: x.Sender, recipient: x.Recipient, denomIn: x.Routes[0].TokenInDenom, denomOut: x.TokenOut.Denom, amountIn: x.TokenInMaxAmount, amountOut: x.TokenOut.Amount, hops: len(x.Routes)}
		return r
	case *ammtypes.MsgSwapByDenom:
		if x.Amount.Denom == x.DenomIn {
			return &swapReq{kind: "in", sender: x.Sender, recipient: x.Recipient, denomIn: x.DenomIn, denomOut: x.DenomOut, amountIn: x.Amount.Amount, amountOut: x.MinAmount.Amount, hops: 0}
		}
		return &swapReq{kind: "out", sender: x.Sender, recipient: x.Recipient, denomIn: x.DenomIn, denomOut: x.DenomOut, amountIn: x.MaxAmount.Amount, amountOut: x.Amount.Amount, hops: 0}
	}
	return nil
}

func (m *C04) PreMsg(w *chain.World, ctx sdk.Context, tx *chain.TxRecord, msgIdx int, msg sdk.Msg, typeURL string) {
	if tx == nil || msg == nil || len(tx.Msgs) != 1 {
		return
	}
	r := parseSwap(msg)
	if r == nil {
		return
	}
	if _, err := sdk.AccAddressFromBech32(r.recipient); err != nil {
		r.recipient = r.sender
	}
	r.tx = tx
	r.msgType = strings.TrimPrefix(typeURL, "/elys.")
	r.pre = map[string]map[string]math.Int{r.sender: balMap(w, ctx, r.sender), r.recipient: balMap(w, ctx, r.recipient)}
	m.reqs = append(m.reqs, r)
	m.sawSwap = true
}

func (m *C04) viol(w *chain.World, rule string, r *swapReq, rel, detail string) {
	w.Report(chain.Violation{Property: "C04", Rule: rule, Scope: sc("form", r.kind, "msg", r.msgType, "hops", fmt.Sprint(r.hops), "recipient_is_sender", fmt.Sprint(r.sender == r.recipient)), Ops: []string{r.msgType}, Relation: rel,
		Detail: fmt.Sprintf("%s by %s (recipient %s) in=%s%s out=%s%s: %s", r.msgType, r.tx.Signer.Name, short(r.recipient), r.amountIn, r.denomIn, r.amountOut, r.denomOut, detail)})
}

func short(a string) string {
	if len(a) > 12 {
		return a[:8] + ".." + a[len(a)-4:]
	}
	return a
}

func (m *C04) PostTx(w *chain.World, ctx sdk.Context, tx *chain.TxRecord, success bool) {
	if tx == nil {
		return
	}
	for _, r := range m.reqs {
		if r.tx != tx {
			continue
		}
		r.accepted = success
		if !success {
			continue
		}
		// nothing moves while the message is handled: execution happens at the end of the block
		for addr, pre := range r.pre {
			if d := diffBal(pre, balMap(w, ctx, addr)); len(d) > 0 {
				m.viol(w, "C04.no_transfer_at_acceptance", r, "moved_in_delivertx", fmt.Sprintf("balances of %s changed by %s while the request was being accepted", short(addr), fmtDelta(d)))
			}
		}
	}
}

func (m *C04) AroundModule(w *chain.World, ctx sdk.Context, module, phase string, before bool) {
	if module != "amm" || phase != "end" {
		return
	}
	if before {
		m.endPre = map[string]map[string]math.Int{}
		for _, r := range m.reqs {
			for _, a := range []string{r.sender, r.recipient} {
				if _, ok := m.endPre[a]; !ok {
					m.endPre[a] = balMap(w, ctx, a)
				}
			}
		}
		if len(m.reqs) == 0 {
			for _, ac := range w.All {
				m.endPre[ac.S()] = balMap(w, ctx, ac.S())
			}
		}
		return
	}
	defer func() { m.reqs = nil }()
	// the transient queue must be empty after the batch
	if _, idx := w.App.AmmKeeper.GetFirstSwapExactAmountInRequest(ctx, []byte{}); idx != 0 {
		w.Report(chain.Violation{Property: "C04", Rule: "C04.queue_empty_after_batch", Scope: sc("form", "in"), Detail: fmt.Sprintf("height %d: an exact-in request (index %d) is still queued after the end-of-block batch", ctx.BlockHeight(), idx)})
	}
	if _, idx := w.App.AmmKeeper.GetFirstSwapExactAmountOutRequest(ctx, []byte{}); idx != 0 {
		w.Report(chain.Violation{Property: "C04", Rule: "C04.queue_empty_after_batch", Scope: sc("form", "out"), Detail: fmt.Sprintf("height %d: an exact-out request (index %d) is still queued after the end-of-block batch", ctx.BlockHeight(), idx)})
	}
	if len(m.reqs) == 0 {
		// idle block: nothing attributable to a swap may move
		m.st.Ev("idle_blocks")
		for a, pre := range m.endPre {
			if d := diffBal(pre, balMap(w, ctx, a)); len(d) > 0 {
				w.Report(chain.Violation{Property: "C04", Rule: "C04.no_transfer_without_request", Scope: sc("form", "idle"), Relation: "moved_in_idle_block",
					Detail: fmt.Sprintf("height %d: no swap request in this block but the batch changed %s by %s", ctx.BlockHeight(), short(a), fmtDelta(d))})
			}
		}
		m.st.Eval("idle", fmt.Sprint(ctx.BlockHeight()))
		return
	}
	// addresses involved in more than one request of this block cannot be attributed
	use := map[string]int{}
	for _, r := range m.reqs {
		use[r.sender]++
		if r.recipient != r.sender {
			use[r.recipient]++
		}
	}
	for _, r := range m.reqs {
		if use[r.sender] != 1 || (r.recipient != r.sender && use[r.recipient] != 1) {
			m.st.Ev("unattributable_request")
			continue
		}
		ds := diffBal(m.endPre[r.sender], balMap(w, ctx, r.sender))
		dq := ds
		if r.recipient != r.sender {
			dq = diffBal(m.endPre[r.recipient], balMap(w, ctx, r.recipient))
		}
		moved := len(ds) > 0 || len(dq) > 0
		outcome := "nothing"
		if moved {
			outcome = "executed"
		}
		if !r.accepted {
			outcome = "rejected/" + outcome
		}
		m.st.Ev("request/" + r.kind + "/" + outcome)
		key := fmt.Sprintf("%s|%s|%s|%s|%s|%s", r.msgType, r.sender, r.amountIn, r.amountOut, fmtDelta(ds), fmtDelta(dq))
		m.st.EvalCase(key)
		if r.hops != 1 || r.recipient != r.sender || !moved || !r.accepted {
			m.st.Sample(map[string]interface{}{"height": ctx.BlockHeight(), "msg": r.msgType, "form": r.kind, "hops": r.hops, "sender": r.tx.Signer.Name, "recipient_is_sender": r.sender == r.recipient, "stated_in": r.amountIn.String() + r.denomIn, "stated_out": r.amountOut.String() + r.denomOut,
				"accepted": r.accepted, "sender_delta": fmtDelta(ds), "recipient_delta": fmtDelta(dq), "batch_size": len(m.reqs)})
		}
		if !r.accepted {
			if moved {
				m.viol(w, "C04.rejected_request_moves_nothing", r, "rejected_but_moved", fmt.Sprintf("tx failed (code %d) but sender delta %s recipient delta %s", r.tx.Result.GetCode(), fmtDelta(ds), fmtDelta(dq)))
			}
			continue
		}
		if !moved {
			continue // the "nothing" pattern
		}
		// the "executed" pattern
		in := zi(ds, r.denomIn)
		out := zi(dq, r.denomOut)
		same := r.recipient == r.sender
		bad := []string{}
		if same && r.denomIn == r.denomOut {
			// a round-trip route (input and output are the same denom of the same account): only the
			// net is observable; it must be at least (minimum out - stated in) resp. (stated out - maximum in)
			net := zi(ds, r.denomIn)
			floor := r.amountOut.Sub(r.amountIn)
			if net.LT(floor) {
				bad = append(bad, fmt.Sprintf("round-trip route: net %s%s is below stated out %s minus stated in %s", net, r.denomIn, r.amountOut, r.amountIn))
			}
			m.st.Ev("round_trip_route_judged_on_net")
		} else if r.kind == "in" {
			if !in.Neg().Equal(r.amountIn) && !(same && r.denomIn == r.denomOut) {
				bad = append(bad, fmt.Sprintf("sender debited %s%s, stated input %s", in.Neg(), r.denomIn, r.amountIn))
			}
			if out.LT(r.amountOut) {
				bad = append(bad, fmt.Sprintf("recipient credited %s%s, stated minimum %s", out, r.denomOut, r.amountOut))
			}
		} else {
			if !in.IsNegative() || in.Neg().GT(r.amountIn) {
				bad = append(bad, fmt.Sprintf("sender debited %s%s, stated maximum %s", in.Neg(), r.denomIn, r.amountIn))
			}
			if out.LT(r.amountOut) {
				bad = append(bad, fmt.Sprintf("recipient credited %s%s, stated output %s", out, r.denomOut, r.amountOut))
			}
		}
		// Nobody may be debited anything that was not stated. Credits in other denoms (the change of
		// an intermediate hop, a rebalancing bonus paid by a hop's pool treasury) are not forbidden by
		// the property ("at least") and are recorded as observations only.
		for d, v := range ds {
			if d != r.denomIn && !(same && d == r.denomOut) {
				if v.IsNegative() {
					bad = append(bad, fmt.Sprintf("sender debited %s%s, a denom the request does not name as input", v.Neg(), d))
				} else {
					m.st.Ev("sender_credit_other_denom")
				}
			}
		}
		if !same {
			for d, v := range dq {
				if v.IsNegative() {
					bad = append(bad, fmt.Sprintf("recipient debited %s%s", v.Neg(), d))
				} else if d != r.denomOut {
					m.st.Ev("recipient_credit_other_denom")
				}
			}
		}
		if len(bad) > 0 {
			m.viol(w, "C04.settles_as_requested", r, "settlement_pattern", strings.Join(bad, "; ")+fmt.Sprintf(" [sender delta %s; recipient delta %s]", fmtDelta(ds), fmtDelta(dq)))
		}
	}
}

func (m *C04) AfterCommit(w *chain.World, blk *chain.BlockRecord) {
	m.reqs = nil
}
