package mon

import (
	"fmt"
	"math/big"
	"sort"
	"strings"

	"cosmossdk.io/math"
	sdk "github.com/cosmos/cosmos-sdk/types"
	ammtypes "github.com/elys-network/elys/x/amm/types"
	commitmenttypes "github.com/elys-network/elys/x/commitment/types"
	mctypes "github.com/elys-network/elys/x/masterchef/types"
	ptypes "github.com/elys-network/elys/x/parameter/types"
	sstypes "github.com/elys-network/elys/x/stablestake/types"

	"verifharness/chain"
)

// ---------------------------------------------------------------------------------------------
// C12: commitment totals, custody and lock-ups.

type lockRef struct {
	amount math.Int
	unlock int64
}

type C12 struct {
	st         *Stats
	prev       map[string]math.Int  // acc|denom -> committed at the previous observation point
	decreased  map[string]math.Int  // denom -> cumulative observed decreases of committed amounts
	uncommit   map[string]math.Int  // denom -> cumulative amount of successful explicit uncommit msgs (Eden/EdenB)
	locks      map[string][]lockRef // acc|denom -> reference lock-ups
	oraclePool map[string]bool      // share denom -> pool uses oracle (locks apply)
	inited     bool
}

func NewC12() *C12 {
	return &C12{st: NewStats("C12"), prev: map[string]math.Int{}, decreased: map[string]math.Int{}, uncommit: map[string]math.Int{}, locks: map[string][]lockRef{}, oraclePool: map[string]bool{}}
}
func (m *C12) Stats() *Stats { return m.st }

func committedMap(cs []*commitmenttypes.Commitments) map[string]math.Int {
	out := map[string]math.Int{}
	for _, c := range cs {
		for _, ct := range c.CommittedTokens {
			out[c.Creator+"|"+ct.Denom] = ct.Amount
		}
	}
	return out
}

// observe diffs the per-account committed amounts against the previous observation point.
// owner = signer of the step ("" for block phases); liquidation = step may legitimately override locks.
func (m *C12) observe(w *chain.World, ctx sdk.Context, step string, signer string, lockExempt bool) map[string]math.Int {
	cur := committedMap(w.App.CommitmentKeeper.GetAllCommitments(ctx))
	now := ctx.BlockTime().Unix()
	if m.inited {
		for k, pv := range m.prev {
			cv := zi(cur, k)
			d := strings.SplitN(k, "|", 2)[1]
			if cv.LT(pv) {
				addTo(m.decreased, d, pv.Sub(cv))
				m.st.Ev("committed_decrease")
				if lockExempt {
					delete(m.locks, k)
				}
			}
		}
		for k, cv := range cur {
			pv := zi(m.prev, k)
			if cv.GT(pv) {
				m.st.Ev("committed_increase")
				d := strings.SplitN(k, "|", 2)[1]
				if m.isOracleShare(w, ctx, d) {
					m.locks[k] = append(m.locks[k], lockRef{cv.Sub(pv), now + 3600})
					m.st.Ev("lock_created")
				}
			}
		}
	}
	m.prev = cur
	m.inited = true
	return cur
}

func (m *C12) isOracleShare(w *chain.World, ctx sdk.Context, denom string) bool {
	if !strings.HasPrefix(denom, "amm/pool/") {
		return false
	}
	// read at the moment of the increase: governance can switch a pool between the two modes, and
	// the lock is decided by the mode in force when the shares are committed
	for _, p := range w.App.AmmKeeper.GetAllPool(ctx) {
		m.oraclePool[ammtypes.GetPoolShareDenom(p.PoolId)] = p.PoolParams.UseOracle
	}
	return m.oraclePool[denom]
}

func (m *C12) checkLocks(w *chain.World, cur map[string]math.Int, now int64, step string, ops []string, owned map[string]bool) {
	for k, ls := range m.locks {
		acc := strings.SplitN(k, "|", 2)[0]
		if owned != nil && !owned[acc] {
			continue
		}
		locked := math.ZeroInt()
		keep := ls[:0]
		for _, l := range ls {
			if l.unlock > now {
				locked = locked.Add(l.amount)
				keep = append(keep, l)
			}
		}
		m.locks[k] = keep
		if !locked.IsPositive() {
			continue
		}
		have := zi(cur, k)
		m.st.Eval("lock/"+k, have.String()+"/"+locked.String())
		if have.LT(locked) {
			w.Report(chain.Violation{Property: "C12", Rule: "C12.lock_respected", Scope: sc("account_denom", k, "step", step), Ops: ops, Relation: "committed<locked",
				Detail: fmt.Sprintf("%s: committed=%s but %s is still under an unexpired lock (reference ledger) after an owner-signed %s", k, have, locked, step)})
			delete(m.locks, k)
		}
	}
}

func (m *C12) PostTx(w *chain.World, ctx sdk.Context, tx *chain.TxRecord, success bool) {
	if !success || tx == nil {
		return
	}
	mt := tx.MsgType()
	exempt := mt == "/elys.leveragelp.MsgClosePositions" // bots / liquidations may override a lock (justification is C10's business)
	cur := m.observe(w, ctx, "tx", tx.Signer.S(), exempt)
	for _, msg := range tx.Msgs {
		switch x := msg.(type) {
		case *commitmenttypes.MsgUncommitTokens:
			addTo(m.uncommit, x.Denom, x.Amount)
		case *commitmenttypes.MsgUnstake:
			if x.Asset == ptypes.Eden || x.Asset == ptypes.EdenB {
				addTo(m.uncommit, x.Asset, x.Amount)
			}
		}
	}
	if exempt {
		return
	}
	// accounts owned by the signer: itself and the addresses of its leveraged positions
	owned := map[string]bool{tx.Signer.S(): true}
	ps, _, _ := w.App.LeveragelpKeeper.GetPositionsForAddress(ctx, tx.Signer.Addr, nil)
	for _, p := range ps {
		owned[p.GetPositionAddress().String()] = true
	}
	m.checkLocks(w, cur, ctx.BlockTime().Unix(), "tx "+strings.TrimPrefix(mt, "/elys."), []string{strings.TrimPrefix(mt, "/elys.")}, owned)
}

func (m *C12) AroundModule(w *chain.World, ctx sdk.Context, module, phase string, before bool) {
	// block phases: the leveragelp sweep liquidates (lock override allowed); nothing else may reduce
	// a locked commitment, which the commit-time check below catches.
	m.observe(w, ctx, module+"."+phase, "", module == "leveragelp" && phase == "begin" && !before)
}

func (m *C12) AfterCommit(w *chain.World, blk *chain.BlockRecord) {
	if w.Dead {
		return
	}
	a := w.App
	ctx := w.ReadCtx()
	ops := OpsOf(blk)
	cur := m.observe(w, ctx, "commit", "", false)
	sum := map[string]math.Int{}
	claimed := map[string]math.Int{}
	denomsExtra := map[string]bool{}
	for _, c := range a.CommitmentKeeper.GetAllCommitments(ctx) {
		for _, ct := range c.CommittedTokens {
			addTo(sum, ct.Denom, ct.Amount)
			if ct.Amount.IsNegative() {
				w.Report(chain.Violation{Property: "C12", Rule: "C12.committed_nonnegative", Scope: sc("account", c.Creator, "denom", ct.Denom), Ops: ops, Detail: fmt.Sprintf("%s committed %s%s", c.Creator, ct.Amount, ct.Denom)})
			}
			ls := math.ZeroInt()
			for _, l := range ct.Lockups {
				ls = ls.Add(l.Amount)
			}
		}
		for _, cl := range c.Claimed {
			addTo(claimed, cl.Denom, cl.Amount)
		}
		// deposited liquid tokens still vesting are held by the custody account as well (the native
		// token is minted on release instead)
		for _, v := range c.VestingTokens {
			if v.Denom != "uelys" && v.Denom != ptypes.Eden && v.Denom != ptypes.EdenB {
				addTo(claimed, v.Denom, v.TotalAmount.Sub(v.ClaimedAmount))
				denomsExtra[v.Denom] = true
			}
		}
	}
	params := a.CommitmentKeeper.GetParams(ctx)
	denoms := map[string]bool{}
	for d := range sum {
		denoms[d] = true
	}
	for _, c := range params.TotalCommitted {
		denoms[c.Denom] = true
	}
	for d := range denomsExtra {
		denoms[d] = true
	}
	for d := range claimed {
		if d != ptypes.Eden && d != ptypes.EdenB {
			denoms[d] = true
		}
	}
	ds := []string{}
	for d := range denoms {
		ds = append(ds, d)
	}
	sort.Strings(ds)
	custody := ModAddr("commitment")
	for _, d := range ds {
		tot := params.TotalCommitted.AmountOf(d)
		s := zi(sum, d)
		if m.st.Eval("total/"+d, tot.String()+"/"+s.String()) {
			m.st.Sample(map[string]interface{}{"height": w.Height, "denom": d, "total_committed": tot.String(), "sum_accounts": s.String(), "observed_decreases": zi(m.decreased, d).String(), "ops": ops})
		}
		if !tot.Equal(s) {
			// relation to the monitor's own ledger of observed decreases: the known defect adds instead of
			// subtracting on uncommit (diff == 2*uncommitted) and never books the EdenB burn (diff += burned)
			dec := zi(m.decreased, d)
			exp := dec.MulRaw(2)
			if d == ptypes.EdenB {
				exp = dec.Add(zi(m.uncommit, d))
			}
			rel := fmt.Sprintf("total-sum=%s", tot.Sub(s))
			if dec.IsPositive() && tot.Sub(s).Equal(exp) {
				rel = "total-sum==2*uncommitted+burned"
			}
			w.Report(chain.Violation{Property: "C12", Rule: "C12.total_eq_sum_accounts", Scope: sc("denom_class", denomClass(d)), Ops: ops, Relation: rel,
				Detail: fmt.Sprintf("TotalCommitted[%s]=%s sum over accounts=%s diff=%s; observed cumulative decreases=%s explicit uncommits=%s", d, tot, s, tot.Sub(s), dec, zi(m.uncommit, d))})
		}
		if d != ptypes.Eden && d != ptypes.EdenB {
			bal := a.BankKeeper.GetBalance(ctx, custody, d).Amount
			need := s.Add(zi(claimed, d))
			m.st.Eval("custody/"+d, bal.String()+"/"+need.String())
			if bal.LT(need) {
				w.Report(chain.Violation{Property: "C12", Rule: "C12.custody_covers_committed_plus_claimed", Scope: sc("denom_class", denomClass(d)), Ops: ops, Relation: "custody<committed+claimed",
					Detail: fmt.Sprintf("commitment module holds %s%s, committed+claimed=%s", bal, d, need)})
			}
		}
	}
	// nothing but an (exempt) liquidation step may have taken a commitment below its unexpired locks
	m.checkLocks(w, cur, w.Now, "block", ops, nil)
}

func denomClass(d string) string {
	switch {
	case strings.HasPrefix(d, "amm/pool/"):
		return "lp-share"
	case d == sstypes.GetShareDenom():
		return "stablestake-share"
	}
	return d
}

// ---------------------------------------------------------------------------------------------
// C13: credited LP rewards are payable (solvency), accrue only in the distribution step and only
// on the shares committed at that moment, and a block never credits more than it collected.

type C13 struct {
	st           *Stats
	prevP        map[string]*big.Rat // pool|denom|holder -> pending at the previous observation point
	haveP        bool
	preBal       map[string]math.Int
	preHold      map[string]map[string]math.Int
	preAcc       map[string]math.LegacyDec
	inDist       bool
	allowed      map[string]*big.Rat // increments the distribution step may add, per pool|denom|holder
	claimTx      *chain.TxRecord
	claimWallet  map[string]math.Int
	claimPending map[string]*big.Rat
}

func NewC13() *C13           { return &C13{st: NewStats("C13"), prevP: map[string]*big.Rat{}} }
func (m *C13) Stats() *Stats { return m.st }

func poolShareDenom(pid uint64) string {
	if pid == uint64(sstypes.PoolId) {
		return sstypes.GetShareDenom()
	}
	return ammtypes.GetPoolShareDenom(pid)
}

func bankBacked(d string) bool { return d != ptypes.Eden && d != ptypes.EdenB }

var ratE18 = new(big.Rat).SetInt(new(big.Int).Exp(big.NewInt(10), big.NewInt(18), nil))
var ratE36 = new(big.Rat).SetInt(new(big.Int).Exp(big.NewInt(10), big.NewInt(36), nil))
var ratEps = big.NewRat(1, 1000000)

func (m *C13) holders(w *chain.World, ctx sdk.Context) map[string]map[string]math.Int {
	out := map[string]map[string]math.Int{}
	for _, c := range w.App.CommitmentKeeper.GetAllCommitments(ctx) {
		for _, ct := range c.CommittedTokens {
			if out[ct.Denom] == nil {
				out[ct.Denom] = map[string]math.Int{}
			}
			out[ct.Denom][c.Creator] = ct.Amount
		}
	}
	return out
}

func (m *C13) accMap(w *chain.World, ctx sdk.Context) map[string]math.LegacyDec {
	out := map[string]math.LegacyDec{}
	for _, pri := range w.App.MasterchefKeeper.GetAllPoolRewardInfos(ctx) {
		out[fmt.Sprintf("%d|%s", pri.PoolId, pri.RewardDenom)] = pri.PoolAccRewardPerShare
	}
	return out
}

// pendingAll recomputes, for every (pool, reward denom, holder), what the holder could claim now:
// RewardPending + (acc*committed - debt)/1e18, in exact rationals over the stored 18-digit values.
func (m *C13) pendingAll(w *chain.World, ctx sdk.Context) (map[string]*big.Rat, map[string]*big.Rat) {
	a := w.App
	byDenom := map[string]*big.Rat{}
	byHolder := map[string]*big.Rat{}
	hold := m.holders(w, ctx)
	type ur struct{ pend, debt math.LegacyDec }
	uris := map[string]ur{}
	for _, u := range a.MasterchefKeeper.GetAllUserRewardInfos(ctx) {
		uris[fmt.Sprintf("%d|%s|%s", u.PoolId, u.RewardDenom, u.User)] = ur{u.RewardPending, u.RewardDebt}
	}
	calc := func(pid uint64, d, h string, acc math.LegacyDec) {
		k := fmt.Sprintf("%d|%s|%s", pid, d, h)
		if _, ok := byHolder[k]; ok {
			return
		}
		bal := math.ZeroInt()
		if hm := hold[poolShareDenom(pid)]; hm != nil {
			bal = zi(hm, h)
		}
		pend, debt := math.LegacyZeroDec(), math.LegacyZeroDec()
		if u, ok := uris[k]; ok {
			pend, debt = u.pend, u.debt
		}
		x := new(big.Rat).SetInt(new(big.Int).Mul(acc.BigInt(), bal.BigInt()))
		x.Sub(x, new(big.Rat).SetInt(debt.BigInt()))
		x.Quo(x, ratE18)
		x.Add(x, new(big.Rat).SetInt(pend.BigInt()))
		x.Quo(x, ratE18)
		if byDenom[d] == nil {
			byDenom[d] = new(big.Rat)
		}
		if x.Sign() > 0 {
			byDenom[d].Add(byDenom[d], x)
		}
		byHolder[k] = x
	}
	for _, pri := range a.MasterchefKeeper.GetAllPoolRewardInfos(ctx) {
		for h := range hold[poolShareDenom(pri.PoolId)] {
			calc(pri.PoolId, pri.RewardDenom, h, pri.PoolAccRewardPerShare)
		}
		pfx := fmt.Sprintf("%d|%s|", pri.PoolId, pri.RewardDenom)
		for k := range uris {
			if strings.HasPrefix(k, pfx) {
				calc(pri.PoolId, pri.RewardDenom, k[len(pfx):], pri.PoolAccRewardPerShare)
			}
		}
	}
	return byDenom, byHolder
}

// step compares the per-holder pending amounts with the previous observation point: outside the
// distribution step nobody's claimable reward may grow.
func (m *C13) step(w *chain.World, ctx sdk.Context, what string, ops []string) map[string]*big.Rat {
	byDenom, cur := m.pendingAll(w, ctx)
	if m.haveP {
		for k, c := range cur {
			p := m.prevP[k]
			if p == nil {
				p = new(big.Rat)
			}
			inc := new(big.Rat).Sub(c, p)
			lim := new(big.Rat).Set(ratEps)
			if m.allowed != nil {
				if al := m.allowed[k]; al != nil {
					lim.Add(lim, al)
				}
			}
			if inc.Sign() != 0 {
				m.st.Eval("holder/"+k, c.FloatString(6))
			}
			if inc.Cmp(lim) > 0 {
				parts := strings.SplitN(k, "|", 3)
				rule := "C13.pending_grows_only_in_distribution"
				if m.allowed != nil {
					rule = "C13.distribution_credit_le_share_of_committed"
				}
				w.Report(chain.Violation{Property: "C13", Rule: rule, Scope: sc("reward_denom", parts[1], "step", stepClass(what)), Ops: ops, Relation: "pending_increase>allowed",
					Detail: fmt.Sprintf("%s: claimable reward of %s for pool %s grew by %s %s (allowed %s) -- credit for blocks before the shares were committed?", what, parts[2], parts[0], inc.FloatString(6), parts[1], lim.FloatString(6))})
			}
		}
	}
	m.prevP = cur
	m.haveP = true
	return byDenom
}

func stepClass(what string) string {
	if i := strings.Index(what, " "); i > 0 {
		return what[:i]
	}
	return what
}

func (m *C13) PreMsg(w *chain.World, ctx sdk.Context, tx *chain.TxRecord, msgIdx int, msg sdk.Msg, typeURL string) {
	if tx == nil || msg == nil || len(tx.Msgs) != 1 {
		return
	}
	if _, ok := msg.(*mctypes.MsgClaimRewards); ok {
		m.claimTx = tx
		m.claimWallet = balMap(w, ctx, tx.Signer.S())
		_, m.claimPending = m.pendingAll(w, ctx)
	}
}

func (m *C13) PostTx(w *chain.World, ctx sdk.Context, tx *chain.TxRecord, success bool) {
	if !success || tx == nil {
		return
	}
	mt := strings.TrimPrefix(tx.MsgType(), "/elys.")
	m.step(w, ctx, "tx "+mt, []string{mt})
	if m.claimTx != tx {
		return
	}
	m.claimTx = nil
	// a claim pays at most what was credited to the claimant for the pools it names
	cl := tx.Msgs[0].(*mctypes.MsgClaimRewards)
	named := map[uint64]bool{}
	for _, id := range cl.PoolIds {
		named[id] = true
	}
	due := map[string]*big.Rat{}
	for k, p := range m.claimPending {
		parts := strings.SplitN(k, "|", 3)
		var pid uint64
		fmt.Sscan(parts[0], &pid)
		if parts[2] != tx.Signer.S() || !named[pid] || p.Sign() <= 0 {
			continue
		}
		if due[parts[1]] == nil {
			due[parts[1]] = new(big.Rat)
		}
		due[parts[1]].Add(due[parts[1]], p)
	}
	paid := diffBal(m.claimWallet, balMap(w, ctx, tx.Signer.S()))
	m.st.Ev("claim_checked")
	for d, amt := range paid {
		if !amt.IsPositive() || !bankBacked(d) {
			continue
		}
		lim := new(big.Rat).SetInt64(1)
		if due[d] != nil {
			lim.Add(lim, due[d])
		}
		m.st.Eval("claim/"+tx.Signer.S()+"/"+d, amt.String())
		if new(big.Rat).SetInt(amt.BigInt()).Cmp(lim) > 0 {
			w.Report(chain.Violation{Property: "C13", Rule: "C13.claim_pays_at_most_credited", Scope: sc("reward_denom", d), Ops: []string{mt}, Relation: "paid>credited",
				Detail: fmt.Sprintf("height %d: claim of %s naming pools %v paid %s%s but only %s was credited and unclaimed", ctx.BlockHeight(), tx.Signer.Name, cl.PoolIds, amt, d, lim.FloatString(3))})
		}
	}
}

func (m *C13) AroundModule(w *chain.World, ctx sdk.Context, module, phase string, before bool) {
	if module != "masterchef" || phase != "end" {
		if before {
			m.step(w, ctx, "phase "+module+"."+phase, nil)
		}
		return
	}
	mc := ModAddr("masterchef")
	if before {
		m.step(w, ctx, "phase before masterchef.end", nil)
		m.preBal = map[string]math.Int{}
		for _, c := range w.App.BankKeeper.GetAllBalances(ctx, mc) {
			m.preBal[c.Denom] = c.Amount
		}
		m.preHold = m.holders(w, ctx)
		m.preAcc = m.accMap(w, ctx)
		m.inDist = true
		return
	}
	if !m.inDist {
		return
	}
	m.inDist = false
	post := m.accMap(w, ctx)
	credited := map[string]*big.Rat{}
	m.allowed = map[string]*big.Rat{}
	for k, av := range post {
		pv, ok := m.preAcc[k]
		if !ok {
			pv = math.LegacyZeroDec()
		}
		if av.LT(pv) {
			w.Report(chain.Violation{Property: "C13", Rule: "C13.acc_per_share_monotone", Scope: sc("pool_denom", k), Detail: fmt.Sprintf("PoolAccRewardPerShare %s decreased %s -> %s", k, pv, av)})
		}
		if !av.GT(pv) {
			continue
		}
		parts := strings.SplitN(k, "|", 2)
		var pid uint64
		fmt.Sscan(parts[0], &pid)
		d := parts[1]
		delta := new(big.Rat).SetInt(av.Sub(pv).BigInt())
		for h, bal := range m.preHold[poolShareDenom(pid)] {
			cr := new(big.Rat).Mul(delta, new(big.Rat).SetInt(bal.BigInt()))
			cr.Quo(cr, ratE36)
			m.allowed[k+"|"+h] = cr
			if credited[d] == nil {
				credited[d] = new(big.Rat)
			}
			credited[d].Add(credited[d], cr)
		}
		m.st.Ev("distribution/" + d)
	}
	m.step(w, ctx, "phase masterchef.end", nil)
	m.allowed = nil
	for d, cr := range credited {
		if !bankBacked(d) {
			continue
		}
		postBal := w.App.BankKeeper.GetBalance(ctx, mc, d).Amount
		in := postBal.Sub(zi(m.preBal, d))
		ext := math.ZeroInt()
		h := ctx.BlockHeight()
		for _, ei := range w.App.MasterchefKeeper.GetAllExternalIncentives(ctx) {
			if ei.RewardDenom == d && ei.FromBlock < h && h <= ei.ToBlock {
				ext = ext.Add(ei.AmountPerBlock)
			}
		}
		ext = ext.Add(zi(m.expiring(w, h), d))
		// The LP share of each collection source (gas fees, perpetual revenue, each pool's DEX
		// revenue) is credited as an exact decimal while the coins moved are truncated, so what
		// "entered the module" under-states what was collected by < 1 unit per source.
		srcs := int64(2 + len(w.App.AmmKeeper.GetAllPool(ctx)))
		budget := new(big.Rat).SetInt(in.Add(ext).AddRaw(srcs).BigInt())
		if m.st.Eval("flow/"+d, in.String()+"/"+ext.String()+"/"+cr.FloatString(3)) {
			m.st.Sample(map[string]interface{}{"height": h, "denom": d, "credited_this_block": cr.FloatString(6), "module_net_inflow": in.String(), "external_scheduled": ext.String()})
		}
		if cr.Cmp(budget) > 0 {
			w.Report(chain.Violation{Property: "C13", Rule: "C13.block_credit_le_inflow", Scope: sc("denom", d), Relation: "credited>inflow",
				Detail: fmt.Sprintf("height %d: %s %s credited to holders but only %s entered the module in its end-blocker (+%s from scheduled external incentives)", h, cr.FloatString(6), d, in, ext)})
		}
	}
}

// expiring: external incentives whose last block is h are deleted inside the end-blocker; the
// monitor remembers them from the last commit so that block still counts them as funded.
var c13Last = map[*chain.World][]struct {
	denom    string
	to       int64
	from     int64
	perBlock math.Int
}{}

func (m *C13) expiring(w *chain.World, h int64) map[string]math.Int {
	out := map[string]math.Int{}
	for _, e := range c13Last[w] {
		if e.to == h && e.from < h {
			addTo(out, e.denom, e.perBlock)
		}
	}
	return out
}

func (m *C13) AfterCommit(w *chain.World, blk *chain.BlockRecord) {
	if w.Dead {
		return
	}
	a := w.App
	ctx := w.ReadCtx()
	ops := OpsOf(blk)
	byDenom := m.step(w, ctx, "phase commit", ops)
	mc := ModAddr("masterchef")
	for d, p := range byDenom {
		if !bankBacked(d) {
			continue
		}
		bal := a.BankKeeper.GetBalance(ctx, mc, d).Amount
		if m.st.Eval("solvency/"+d, bal.String()+"/"+p.FloatString(0)) {
			m.st.Sample(map[string]interface{}{"height": w.Height, "denom": d, "module_balance": bal.String(), "sum_pending": p.FloatString(3), "ops": ops})
		}
		if new(big.Rat).SetInt(bal.BigInt()).Cmp(p) < 0 {
			w.Report(chain.Violation{Property: "C13", Rule: "C13.module_balance_covers_pending", Scope: sc("denom", d), Ops: ops, Relation: "pending>balance",
				Detail: fmt.Sprintf("masterchef holds %s%s but credited-and-unclaimed rewards sum to %s", bal, d, p.FloatString(3))})
		}
	}
	lst := c13Last[w][:0]
	for _, ei := range a.MasterchefKeeper.GetAllExternalIncentives(ctx) {
		lst = append(lst, struct {
			denom    string
			to       int64
			from     int64
			perBlock math.Int
		}{ei.RewardDenom, ei.ToBlock, ei.FromBlock, ei.AmountPerBlock})
	}
	c13Last[w] = lst
}
