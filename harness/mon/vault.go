package mon

import (
	"fmt"
	"math/big"
	"strings"

	"cosmossdk.io/math"
	sdk "github.com/cosmos/cosmos-sdk/types"
	lptypes "github.com/elys-network/elys/x/leveragelp/types"
	sstypes "github.com/elys-network/elys/x/stablestake/types"

	"verifharness/chain"
)

// C07: vault shares are issued and redeemed at the fair rate; nobody's action reduces what the
// others' shares redeem for; the redemption rate never falls; lending is capped at 90 %.
type vaultObs struct {
	tv, supply, cash *big.Int
	holders          map[string]*big.Int
}

type C07 struct {
	st       *Stats
	prev     *vaultObs
	pre      *vaultObs // before the current bond/unbond/open message
	preW     *big.Int  // signer's deposit-denom wallet before the message
	preS     *big.Int  // signer's shares before the message
	tx       *chain.TxRecord
	lastBond map[string][3]*big.Int // signer -> (height, deposited, minted) of its last bond
}

func NewC07() *C07           { return &C07{st: NewStats("C07"), lastBond: map[string][3]*big.Int{}} }
func (m *C07) Stats() *Stats { return m.st }

func (m *C07) observe(w *chain.World, ctx sdk.Context) *vaultObs {
	a := w.App
	p := a.StablestakeKeeper.GetParams(ctx)
	o := &vaultObs{tv: p.TotalValue.BigInt(), supply: a.BankKeeper.GetSupply(ctx, sstypes.GetShareDenom()).Amount.BigInt(), cash: a.BankKeeper.GetBalance(ctx, ModAddr("stablestake"), p.DepositDenom).Amount.BigInt(), holders: map[string]*big.Int{}}
	for _, c := range a.CommitmentKeeper.GetAllCommitments(ctx) {
		for _, ct := range c.CommittedTokens {
			if ct.Denom == sstypes.GetShareDenom() && ct.Amount.IsPositive() {
				o.holders[c.Creator] = ct.Amount.BigInt()
			}
		}
	}
	return o
}

func rate(o *vaultObs) *big.Rat {
	if o.supply.Sign() == 0 {
		return nil
	}
	return new(big.Rat).SetFrac(o.tv, o.supply)
}

func ceilRat(r *big.Rat) *big.Int {
	q := new(big.Int).Quo(r.Num(), r.Denom())
	if new(big.Int).Mul(q, r.Denom()).Cmp(r.Num()) != 0 {
		q.Add(q, big.NewInt(1))
	}
	return q
}

// step: the redemption rate must not fall between consecutive observation points by more than the
// rounding of one conversion (one share's worth spread over the supply).
func (m *C07) step(w *chain.World, ctx sdk.Context, where string, ops []string) *vaultObs {
	cur := m.observe(w, ctx)
	if m.prev != nil {
		r0, r1 := rate(m.prev), rate(cur)
		if r0 != nil && r1 != nil {
			allow := new(big.Rat).SetFrac(ceilRat(r0), cur.supply)
			lim := new(big.Rat).Sub(r0, allow)
			if m.st.Eval("rate", r1.FloatString(12)) {
				m.st.Sample(map[string]interface{}{"height": ctx.BlockHeight(), "at": where, "total_value": cur.tv.String(), "share_supply": cur.supply.String(), "rate": r1.FloatString(12), "previous_rate": r0.FloatString(12), "ops": ops})
			}
			if r1.Cmp(lim) < 0 {
				w.Report(chain.Violation{Property: "C07", Rule: "C07.redemption_rate_never_falls", Scope: sc("at", stepClass(where)), Ops: ops, Relation: "rate_decreased",
					Detail: fmt.Sprintf("%s height %d: redemption rate fell %s -> %s (TotalValue %s -> %s, supply %s -> %s)", where, ctx.BlockHeight(), r0.FloatString(12), r1.FloatString(12), m.prev.tv, cur.tv, m.prev.supply, cur.supply)})
			}
		}
	}
	m.prev = cur
	return cur
}

func (m *C07) PreMsg(w *chain.World, ctx sdk.Context, tx *chain.TxRecord, msgIdx int, msg sdk.Msg, typeURL string) {
	if tx == nil || msg == nil || len(tx.Msgs) != 1 {
		return
	}
	switch msg.(type) {
	case *sstypes.MsgBond, *sstypes.MsgUnbond, *lptypes.MsgOpen:
		m.pre = m.observe(w, ctx)
		m.tx = tx
		m.preW = w.App.BankKeeper.GetBalance(ctx, tx.Signer.Addr, w.App.StablestakeKeeper.GetParams(ctx).DepositDenom).Amount.BigInt()
		m.preS = big.NewInt(0)
		if s, ok := m.pre.holders[tx.Signer.S()]; ok {
			m.preS = s
		}
	}
}

func (m *C07) PostTx(w *chain.World, ctx sdk.Context, tx *chain.TxRecord, success bool) {
	if tx == nil || !success {
		return
	}
	op := strings.TrimPrefix(tx.MsgType(), "/elys.")
	cur := m.step(w, ctx, "tx "+op, []string{op})
	if m.tx != tx || m.pre == nil {
		return
	}
	pre := m.pre
	m.pre, m.tx = nil, nil
	r0 := rate(pre)
	who := tx.Signer.S()
	one := big.NewRat(1, 1)
	switch x := tx.Msgs[0].(type) {
	case *sstypes.MsgBond:
		if r0 == nil {
			return
		}
		s1 := big.NewInt(0)
		if s, ok := cur.holders[who]; ok {
			s1 = s
		}
		minted := new(big.Int).Sub(s1, m.preS)
		fair := new(big.Rat).Quo(new(big.Rat).SetInt(x.Amount.BigInt()), r0)
		m.st.Ev("bond")
		m.st.Eval("bond/"+who, fmt.Sprint(x.Amount, minted))
		m.lastBond[who] = [3]*big.Int{big.NewInt(ctx.BlockHeight()), x.Amount.BigInt(), minted}
		if new(big.Rat).SetInt(minted).Cmp(new(big.Rat).Add(fair, one)) > 0 {
			w.Report(chain.Violation{Property: "C07", Rule: "C07.shares_issued_at_fair_rate", Scope: sc("op", "bond"), Ops: []string{op}, Relation: "minted>fair",
				Detail: fmt.Sprintf("height %d: bond of %s at rate %s minted %s shares, fair amount %s", ctx.BlockHeight(), x.Amount, r0.FloatString(12), minted, fair.FloatString(6))})
		}
	case *sstypes.MsgUnbond:
		if r0 == nil {
			return
		}
		w1 := w.App.BankKeeper.GetBalance(ctx, tx.Signer.Addr, w.App.StablestakeKeeper.GetParams(ctx).DepositDenom).Amount.BigInt()
		paid := new(big.Int).Sub(w1, m.preW)
		fair := new(big.Rat).Mul(new(big.Rat).SetInt(x.Amount.BigInt()), r0)
		m.st.Ev("unbond")
		m.st.Eval("unbond/"+who, fmt.Sprint(x.Amount, paid))
		// deposit then immediate withdrawal (same block, nothing accrues in between): the part of the
		// deposit that the withdrawn shares stand for comes back plus at most one share's worth
		if lb, ok := m.lastBond[who]; ok && lb[0].Int64() == ctx.BlockHeight() && lb[2].Sign() > 0 && x.Amount.BigInt().Cmp(lb[2]) <= 0 {
			part := new(big.Rat).Mul(new(big.Rat).SetInt(lb[1]), new(big.Rat).SetFrac(x.Amount.BigInt(), lb[2]))
			lim := new(big.Rat).Add(part, new(big.Rat).SetInt(new(big.Int).Add(ceilRat(r0), big.NewInt(1))))
			m.st.Ev("deposit_then_immediate_withdrawal")
			m.st.Eval("roundtrip/"+who, fmt.Sprint(lb[1], lb[2], x.Amount, paid))
			if new(big.Rat).SetInt(paid).Cmp(lim) > 0 {
				w.Report(chain.Violation{Property: "C07", Rule: "C07.bond_unbond_round_trip", Scope: sc("op", "roundtrip"), Ops: []string{"stablestake.MsgBond", op}, Relation: "round_trip_gain",
					Detail: fmt.Sprintf("height %d: deposited %s for %s shares and immediately withdrew %s of them for %s (more than the deposit part %s + one share's worth)", ctx.BlockHeight(), lb[1], lb[2], x.Amount, paid, part.FloatString(3))})
			}
			delete(m.lastBond, who)
		}
		if new(big.Rat).SetInt(paid).Cmp(new(big.Rat).Add(fair, one)) > 0 {
			w.Report(chain.Violation{Property: "C07", Rule: "C07.shares_redeemed_at_fair_rate", Scope: sc("op", "unbond"), Ops: []string{op}, Relation: "paid>fair",
				Detail: fmt.Sprintf("height %d: unbond of %s shares at rate %s paid %s, fair amount %s", ctx.BlockHeight(), x.Amount, r0.FloatString(12), paid, fair.FloatString(6))})
		}
	case *lptypes.MsgOpen:
		amount := new(big.Int).Sub(pre.cash, cur.cash)
		if amount.Sign() <= 0 {
			return
		}
		m.st.Ev("borrow")
		// (TV0 - cash0 + amount) * 10 <= 9 * TV0 on the state the handler itself saw
		lhs := new(big.Int).Mul(new(big.Int).Add(new(big.Int).Sub(pre.tv, pre.cash), amount), big.NewInt(10))
		rhs := new(big.Int).Mul(pre.tv, big.NewInt(9))
		util := new(big.Rat).SetFrac(new(big.Int).Add(new(big.Int).Sub(pre.tv, pre.cash), amount), pre.tv)
		if m.st.Eval("borrow", util.FloatString(9)) {
			m.st.Sample(map[string]interface{}{"height": ctx.BlockHeight(), "borrowed": amount.String(), "total_value_before": pre.tv.String(), "cash_before": pre.cash.String(), "utilisation_after": util.FloatString(6)})
		}
		if lhs.Cmp(rhs) > 0 {
			w.Report(chain.Violation{Property: "C07", Rule: "C07.borrow_cap_90_percent", Scope: sc("op", "borrow"), Ops: []string{op}, Relation: "outstanding>0.9*value",
				Detail: fmt.Sprintf("height %d: a borrow of %s succeeded with TotalValue %s and cash %s: outstanding loans would be %s of the vault's value", ctx.BlockHeight(), amount, pre.tv, pre.cash, util.FloatString(6))})
		}
		return
	default:
		return
	}
	// the others' shares redeem for at least what they did (minus one share's worth)
	r1 := rate(cur)
	if r0 == nil || r1 == nil {
		return
	}
	allow := new(big.Rat).SetInt(ceilRat(r0))
	for o, sh := range pre.holders {
		if o == who {
			continue
		}
		before := new(big.Rat).Mul(new(big.Rat).SetInt(sh), r0)
		after := new(big.Rat).Mul(new(big.Rat).SetInt(sh), r1)
		m.st.Eval("others/"+o, after.FloatString(0))
		if after.Cmp(new(big.Rat).Sub(before, allow)) < 0 {
			w.Report(chain.Violation{Property: "C07", Rule: "C07.others_redeemable_value_kept", Scope: sc("op", op), Ops: []string{op}, Relation: "others_value_decreased",
				Detail: fmt.Sprintf("height %d: %s by %s reduced what %s's %s shares redeem for: %s -> %s", ctx.BlockHeight(), op, tx.Signer.Name, short(o), sh, before.FloatString(3), after.FloatString(3))})
		}
	}
}

func (m *C07) AroundModule(w *chain.World, ctx sdk.Context, module, phase string, before bool) {
	if before {
		m.step(w, ctx, "phase "+module+"."+phase, nil)
	}
}

func (m *C07) AfterCommit(w *chain.World, blk *chain.BlockRecord) {
	if w.Dead {
		return
	}
	m.step(w, w.ReadCtx(), "phase commit", OpsOf(blk))
}

var _ = math.ZeroInt
