// Package mon holds the monitors: oracles over observations of the running chain.
package mon

import (
	"fmt"
	"hash/fnv"
	"sort"
	"strings"

	"cosmossdk.io/math"
	abci "github.com/cometbft/cometbft/abci/types"
	sdk "github.com/cosmos/cosmos-sdk/types"
	authtypes "github.com/cosmos/cosmos-sdk/x/auth/types"

	"verifharness/chain"
)

// Stats is what a monitor actually observed; it becomes the evidence file.
type Stats struct {
	Prop        string
	Evaluations int64
	distinct    map[uint64]struct{}
	last        map[string]uint64
	Samples     []interface{}
	Events      map[string]int64 // named observations (phase events, op counters)
	MaxSamples  int
	offered     int64
}

func NewStats(prop string) *Stats {
	return &Stats{Prop: prop, distinct: map[uint64]struct{}{}, last: map[string]uint64{}, Events: map[string]int64{}, MaxSamples: 6}
}

func h64(s string) uint64 {
	h := fnv.New64a()
	h.Write([]byte(s))
	return h.Sum64()
}

// Eval counts one oracle evaluation of equation `eq` with the given operand rendering. It is
// counted as distinct & non-trivial only if the operands of that equation changed since its
// previous evaluation and this operand tuple was never seen before.
func (s *Stats) Eval(eq string, operands string) bool {
	s.Evaluations++
	h := h64(eq + "|" + operands)
	prev, seen := s.last[eq]
	s.last[eq] = h
	if seen && prev == h {
		return false
	}
	if _, ok := s.distinct[h]; ok {
		return false
	}
	s.distinct[h] = struct{}{}
	return true
}

// EvalCase counts an evaluation that is non-trivial by construction (a generated input case).
func (s *Stats) EvalCase(key string) {
	s.Evaluations++
	s.distinct[h64(key)] = struct{}{}
}

func (s *Stats) Distinct() int64 { return int64(len(s.distinct)) }

func (s *Stats) DistinctKeys() []uint64 {
	out := make([]uint64, 0, len(s.distinct))
	for k := range s.distinct {
		out = append(out, k)
	}
	sort.Slice(out, func(i, j int) bool { return out[i] < out[j] })
	return out
}

// Sample keeps a small, deterministic spread of the offered cases: the first few, then every case
// whose ordinal is a power of two replaces a slot (so late, state-rich cases are represented too).
func (s *Stats) Sample(v interface{}) {
	s.offered++
	if len(s.Samples) < s.MaxSamples {
		s.Samples = append(s.Samples, v)
		return
	}
	if s.offered&(s.offered-1) == 0 {
		s.Samples[2+int(s.offered>>1)%(s.MaxSamples-2)] = v
	}
}

func (s *Stats) Ev(name string) { s.Events[name]++ }

// Monitor is implemented by every monitor (in addition to the chain probe interfaces it needs).
type Monitor interface {
	Stats() *Stats
}

func ModAddr(name string) sdk.AccAddress { return authtypes.NewModuleAddress(name) }

// BankEv is one bank-module event: the authoritative, ordered ledger of committed balance moves.
type BankEv struct {
	Kind  string // coin_spent | coin_received | coinbase | burn | transfer
	Addr  string // spender / receiver / minter / burner / recipient
	From  string // transfer sender
	Coins sdk.Coins
	Mode  string // "", BeginBlock, EndBlock
}

func ParseBankEvents(evs []abci.Event) []BankEv {
	out := []BankEv{}
	for _, e := range evs {
		switch e.Type {
		case "coin_spent", "coin_received", "coinbase", "burn", "transfer":
		default:
			continue
		}
		be := BankEv{Kind: e.Type}
		for _, a := range e.Attributes {
			switch a.Key {
			case "spender", "receiver", "minter", "burner", "recipient":
				be.Addr = a.Value
			case "sender":
				be.From = a.Value
			case "amount":
				c, err := sdk.ParseCoinsNormalized(a.Value)
				if err == nil {
					be.Coins = c
				}
			case "mode":
				be.Mode = a.Value
			}
		}
		out = append(out, be)
	}
	return out
}

func EvAttr(e abci.Event, key string) string {
	for _, a := range e.Attributes {
		if a.Key == key {
			return a.Value
		}
	}
	return ""
}

// OpsOf lists the successful message types of a block (sorted, de-duplicated, "/elys." stripped).
func OpsOf(blk *chain.BlockRecord) []string {
	m := map[string]bool{}
	for _, t := range blk.Txs {
		if t.OK() {
			for _, msg := range t.Msgs {
				m[strings.TrimPrefix(sdk.MsgTypeURL(msg), "/elys.")] = true
			}
		}
	}
	out := []string{}
	for k := range m {
		out = append(out, k)
	}
	sort.Strings(out)
	return out
}

func zi(m map[string]math.Int, k string) math.Int {
	if v, ok := m[k]; ok {
		return v
	}
	return math.ZeroInt()
}

func addTo(m map[string]math.Int, k string, v math.Int) { m[k] = zi(m, k).Add(v) }

func sc(kv ...string) map[string]string {
	m := map[string]string{}
	for i := 0; i+1 < len(kv); i += 2 {
		m[kv[i]] = kv[i+1]
	}
	return m
}

var _ = fmt.Sprintf
