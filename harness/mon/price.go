package mon

import (
	"fmt"
	"math/big"

	"cosmossdk.io/math"
	sdk "github.com/cosmos/cosmos-sdk/types"
	ammtypes "github.com/elys-network/elys/x/amm/types"

	"verifharness/chain"
	"verifharness/ref"
)

// C03 (application part): in every AMM end-blocker (the swap batch) and masterchef end-blocker
// (fee / revenue conversion swaps) an oracle pool never pays out more value, at the oracle prices
// in force, than it takes in, and the weighted product prod(B_i^w_i) of a constant-product pool's
// reserves never decreases (only swaps run in those phases: whatever the route, the batch order or
// the number of pieces a trade is split into, every piece leaves the product at least where it
// was). The pure part (scenario pure-amm) decides the formula itself.
type C03 struct {
	st     *Stats
	pre    map[uint64]map[string]math.Int
	tre    map[uint64]map[string]math.Int
	price  map[string]math.LegacyDec
	ev0    int
	cpPre  map[uint64]map[string]math.Int
	cpBook map[uint64]map[string]math.Int
	cpAcc  map[uint64]bool
}

func NewC03() *C03           { return &C03{st: NewStats("C03")} }
func (m *C03) Stats() *Stats { return m.st }

func (m *C03) AroundModule(w *chain.World, ctx sdk.Context, module, phase string, before bool) {
	if phase != "end" || (module != "amm" && module != "masterchef") {
		return
	}
	a := w.App
	if before {
		m.pre, m.tre, m.price = map[uint64]map[string]math.Int{}, map[uint64]map[string]math.Int{}, map[string]math.LegacyDec{}
		m.cpPre, m.cpBook, m.cpAcc = map[uint64]map[string]math.Int{}, map[uint64]map[string]math.Int{}, map[uint64]bool{}
		m.ev0 = len(w.PhaseEvents)
		for _, p := range a.AmmKeeper.GetAllPool(ctx) {
			if !p.PoolParams.UseOracle {
				m.cpPre[p.PoolId] = balMap(w, ctx, p.Address)
				m.cpBook[p.PoolId] = map[string]math.Int{}
				for _, as := range p.PoolAssets {
					m.cpBook[p.PoolId][as.Token.Denom] = as.Token.Amount
					// a pool that owns an accounted pool (a leveraged pool switched to constant-product
					// mode by governance) is priced on its accounted balances = recorded reserve + what the
					// perpetual positions owe it - what they hold of it: the formula is judged on those,
					// built here from the current reserve and the accounted pool's non-amm part (not from
					// the stored total, which is what the code under test has to keep fresh)
					if ap, found := a.AccountedPoolKeeper.GetAccountedPool(ctx, p.PoolId); found {
						for _, na := range ap.NonAmmPoolTokens {
							if na.Denom == as.Token.Denom {
								if acc := as.Token.Amount.Add(na.Amount); acc.IsPositive() {
									m.cpBook[p.PoolId][as.Token.Denom] = acc
								}
							}
						}
						m.cpAcc[p.PoolId] = true
						m.st.Ev("cp_pool_judged_on_accounted_balances")
					}
				}
				continue
			}
			m.pre[p.PoolId] = balMap(w, ctx, p.Address)
			m.tre[p.PoolId] = balMap(w, ctx, p.RebalanceTreasury)
			for _, as := range p.PoolAssets {
				m.price[as.Token.Denom] = a.OracleKeeper.GetAssetPriceFromDenom(ctx, as.Token.Denom)
			}
		}
		return
	}
	for _, p := range a.AmmKeeper.GetAllPool(ctx) {
		if cp, ok := m.cpPre[p.PoolId]; ok && !p.PoolParams.UseOracle {
			m.cpProduct(w, ctx, module, p.PoolId, p.Address, cp, m.cpBook[p.PoolId], poolDenoms(p.PoolAssets), poolWeights(p.PoolAssets), m.cpAcc[p.PoolId])
			continue
		}
		pre, ok := m.pre[p.PoolId]
		if !ok {
			continue
		}
		d := diffBal(pre, balMap(w, ctx, p.Address))
		if len(d) == 0 {
			continue
		}
		val := new(big.Int)
		allow := new(big.Int)
		priced := true
		for _, as := range p.PoolAssets {
			pr := m.price[as.Token.Denom]
			if pr.IsZero() {
				priced = false
			}
			val.Add(val, new(big.Int).Mul(zi(d, as.Token.Denom).BigInt(), pr.BigInt()))
			allow.Add(allow, new(big.Int).Mul(big.NewInt(64), pr.BigInt()))
		}
		if !priced {
			m.st.Ev("unpriced_batch")
			continue
		}
		td := diffBal(m.tre[p.PoolId], balMap(w, ctx, p.RebalanceTreasury))
		bonusPaid := false
		for _, v := range td {
			if v.IsNegative() {
				bonusPaid = true
			}
		}
		if bonusPaid {
			m.st.Ev("treasury_bonus_paid")
		}
		if m.st.Eval(fmt.Sprintf("value/%d/%s", p.PoolId, module), fmtDelta(d)) {
			m.st.Sample(map[string]interface{}{"height": ctx.BlockHeight(), "phase": module + ".end", "pool": p.PoolId, "pool_delta": fmtDelta(d), "treasury_delta": fmtDelta(td), "value_delta_raw": val.String()})
		}
		// What the property compares is what the pool pays out to traders with what traders pay in.
		// The pool's own holdings also move towards its rebalance treasury (swap fees, the treasury's
		// share of weight-breaking fees): with WeightBreakingFeePortion = 1 the holdings can shrink by
		// fee x swap-fee x amount although every trader pays more than he gets. So transfers from the
		// pool to its treasury are left out: paid = sum of transfers pool -> anybody else, taken = sum
		// of transfers anybody -> pool, both read from the bank events of this phase.
		paid, taken := new(big.Int), new(big.Int)
		if m.ev0 <= len(w.PhaseEvents) {
			for _, be := range ParseBankEvents(w.PhaseEvents[m.ev0:]) {
				if be.Kind != "transfer" {
					continue
				}
				for _, cn := range be.Coins {
					pr, okp := m.price[cn.Denom]
					if !okp {
						continue
					}
					v := new(big.Int).Mul(cn.Amount.BigInt(), pr.BigInt())
					if be.From == p.Address && be.Addr != p.RebalanceTreasury {
						paid.Add(paid, v)
					}
					if be.Addr == p.Address {
						taken.Add(taken, v)
					}
				}
			}
		}
		if val.Sign() < 0 && new(big.Int).Add(val, allow).Sign() < 0 {
			m.st.Ev("oracle_pool_holdings_shrank_towards_treasury")
		}
		if paid.Cmp(new(big.Int).Add(taken, allow)) > 0 {
			w.Report(chain.Violation{Property: "C03", Rule: "C03.oracle_pool_value_not_paid_away", Scope: sc("pool", fmt.Sprint(p.PoolId), "phase", module), Relation: "pool_value_decreased",
				Detail: fmt.Sprintf("height %d %s.end: oracle pool %d paid out %s and took in %s (raw value at the oracle prices in force; transfers to its own treasury left out); holdings changed by %s - the pool paid out more than it took in", ctx.BlockHeight(), module, p.PoolId, paid, taken, fmtDelta(d))})
		}
	}
}

// feeConversionThrough: did the pool's revenue address swap collected fees through the pool itself
// during this phase (a transfer revenue address -> pool)?
func (m *C03) feeConversionThrough(w *chain.World, id uint64, poolAddr string) bool {
	rev := ammtypes.NewPoolRevenueAddress(id).String()
	if m.ev0 > len(w.PhaseEvents) {
		return false
	}
	for _, be := range ParseBankEvents(w.PhaseEvents[m.ev0:]) {
		if be.Kind == "transfer" && be.From == rev && be.Addr == poolAddr {
			return true
		}
	}
	return false
}

func poolDenoms(as []ammtypes.PoolAsset) []string {
	out := []string{}
	for _, a := range as {
		out = append(out, a.Token.Denom)
	}
	return out
}

// poolWeights returns the weights divided by their gcd (nil if a reduced weight is above 64: the
// exact integer power would be too large to be worth it).
func poolWeights(as []ammtypes.PoolAsset) []int64 {
	g := new(big.Int)
	for _, a := range as {
		g.GCD(nil, nil, g, a.Weight.BigInt())
	}
	if g.Sign() == 0 {
		return nil
	}
	out := []int64{}
	for _, a := range as {
		q := new(big.Int).Quo(a.Weight.BigInt(), g)
		if !q.IsInt64() || q.Int64() > 64 || q.Int64() <= 0 {
			return nil
		}
		out = append(out, q.Int64())
	}
	return out
}

func (m *C03) cpProduct(w *chain.World, ctx sdk.Context, module string, id uint64, addr string, pre, book map[string]math.Int, denoms []string, ws []int64, accounted bool) {
	cur := balMap(w, ctx, addr)
	d := diffBal(pre, cur)
	if len(d) == 0 {
		return
	}
	if ws == nil {
		m.st.Ev("cp_pool_weights_not_reducible")
		return
	}
	// The formula works on the pool's recorded reserves; coins that were merely sent to the pool's
	// address are not part of them. Start from the recorded reserves and apply what really moved
	// at the pool's address during the phase.
	equal := true
	for _, x := range ws {
		if x != ws[0] {
			equal = false
		}
	}
	b0, b1, allow := []*big.Int{}, []*big.Int{}, []*big.Int{}
	for _, dn := range denoms {
		r0 := zi(book, dn).BigInt()
		b0 = append(b0, r0)
		b1 = append(b1, new(big.Int).Add(r0, zi(d, dn).BigInt()))
		// rounding: one unit per swap; unequal weights: the power approximation's 1e-8 relative
		// precision per swap (at most 256 swaps touch one pool in a phase of these workloads)
		al := big.NewInt(256)
		if !equal {
			al.Add(al, new(big.Int).Div(new(big.Int).Mul(r0, big.NewInt(256)), big.NewInt(100_000_000)))
		}
		allow = append(allow, al)
	}
	for _, b := range b0 {
		if b.Sign() <= 0 {
			return
		}
	}
	// The allowance is added to the reserves at the END of the phase, but a unit of rounding lost
	// while the reserve was small weighs more: k units at a reserve of r are k/r of the product,
	// i.e. k*(end/r) units at the end. Scale each asset's allowance by end / min(start, end)
	// (a pool drained to 1 unit of an asset and refilled in the same phase cannot be judged at all:
	// its allowance exceeds the reserve).
	for i := range allow {
		minr := b0[i]
		if b1[i].Cmp(minr) < 0 {
			minr = b1[i]
		}
		if minr.Sign() <= 0 {
			return
		}
		if b1[i].Cmp(minr) > 0 {
			num := new(big.Int).Mul(allow[i], b1[i])
			allow[i] = num.Add(num, new(big.Int).Sub(minr, big.NewInt(1))).Div(num, minr)
			if b1[i].Cmp(new(big.Int).Mul(minr, big.NewInt(2))) >= 0 {
				m.st.Ev("cp_pool_reserve_more_than_doubled_in_phase")
			}
		}
	}
	m.st.Ev("cp_pool_batch")
	if m.st.Eval(fmt.Sprintf("product/%d/%s", id, module), fmtDelta(d)) {
		m.st.Sample(map[string]interface{}{"height": ctx.BlockHeight(), "phase": module + ".end", "pool": id, "constant_product": true, "pool_delta": fmtDelta(d), "reserves_before": fmt.Sprint(b0), "weights": fmt.Sprint(ws)})
	}
	one := big.NewInt(1)
	if !ref.ValueNotDecreased(b0, b1, ws, one, one, allow) {
		rule := "C03.cp_pool_product_not_decreased"
		if accounted && m.feeConversionThrough(w, id, addr) {
			// known finding (DESIGN 9): the conversion of a collected fee into the revenue token is a
			// nested swap through the same pool, priced on the accounted balances recorded before the
			// enclosing swap (they are refreshed by the AfterSwap hook, which runs after it)
			rule = "C03.cp_product_fee_conversion_on_stale_accounted_balance"
		}
		w.Report(chain.Violation{Property: "C03", Rule: rule, Scope: sc("pool", fmt.Sprint(id), "phase", module), Relation: "weighted_product_decreased",
			Detail: fmt.Sprintf("height %d %s.end: constant-product pool %d reserves %v -> %v (weights %v, moved at the pool address: %s): the weighted product decreased - the swaps of this phase paid out more than the formula allows", ctx.BlockHeight(), module, id, b0, b1, ws, fmtDelta(d))})
	}
}
