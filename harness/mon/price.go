package mon

import (
	"fmt"
	"math/big"

	"cosmossdk.io/math"
	sdk "github.com/cosmos/cosmos-sdk/types"

	"verifharness/chain"
)

// C03 (application part): in every AMM end-blocker (the swap batch) and masterchef end-blocker
// (fee / revenue conversion swaps) an oracle pool never pays out more value, at the oracle prices
// in force, than it takes in. The pure part (scenario pure-amm) decides the formula itself.
type C03 struct {
	st    *Stats
	pre   map[uint64]map[string]math.Int
	tre   map[uint64]map[string]math.Int
	price map[string]math.LegacyDec
}

func NewC03() *C03           { return &C03{st: NewStats("C03")} }
func (m *C03) Stats() *Stats { return m.st }

func (m *C03) AroundModule(w *chain.World, ctx sdk.Context, module, phase string, before bool) {
	if phase != "end" || (module != "amm" && module != "masterchef") {
		return
	}
	a := w.App
	if before {
		m.pre, m.tre, m.price = map[uint64]map[string]math.Int{}, map[uint64]map[string]math.Int{}, map[string]math.LegacyDec{}
		for _, p := range a.AmmKeeper.GetAllPool(ctx) {
			if !p.PoolParams.UseOracle {
				continue
			}
			m.pre[p.PoolId] = balMap(w, ctx, p.Address)
			m.tre[p.PoolId] = balMap(w, ctx, p.RebalanceTreasury)
			for _, as := range p.PoolAssets {
				m.price[as.Token.Denom] = a.OracleKeeper.GetAssetPriceFromDenom(ctx, as.Token.Denom)
			}
		}
		return
	}
	for _, p := range a.AmmKeeper.GetAllPool(ctx) {
		pre, ok := m.pre[p.PoolId]
		if !ok {
			continue
		}
		d := diffBal(pre, balMap(w, ctx, p.Address))
		if len(d) == 0 {
			continue
		}
		val := new(big.Int)
		allow := new(big.Int)
		priced := true
		for _, as := range p.PoolAssets {
			pr := m.price[as.Token.Denom]
			if pr.IsZero() {
				priced = false
			}
			val.Add(val, new(big.Int).Mul(zi(d, as.Token.Denom).BigInt(), pr.BigInt()))
			allow.Add(allow, new(big.Int).Mul(big.NewInt(64), pr.BigInt()))
		}
		if !priced {
			m.st.Ev("unpriced_batch")
			continue
		}
		td := diffBal(m.tre[p.PoolId], balMap(w, ctx, p.RebalanceTreasury))
		bonusPaid := false
		for _, v := range td {
			if v.IsNegative() {
				bonusPaid = true
			}
		}
		if bonusPaid {
			m.st.Ev("treasury_bonus_paid")
		}
		if m.st.Eval(fmt.Sprintf("value/%d/%s", p.PoolId, module), fmtDelta(d)) {
			m.st.Sample(map[string]interface{}{"height": ctx.BlockHeight(), "phase": module + ".end", "pool": p.PoolId, "pool_delta": fmtDelta(d), "treasury_delta": fmtDelta(td), "value_delta_raw": val.String()})
		}
		if new(big.Int).Add(val, allow).Sign() < 0 {
			w.Report(chain.Violation{Property: "C03", Rule: "C03.oracle_pool_value_not_paid_away", Scope: sc("pool", fmt.Sprint(p.PoolId), "phase", module), Relation: "pool_value_decreased",
				Detail: fmt.Sprintf("height %d %s.end: oracle pool %d holdings changed by %s, worth %s (raw, at the oracle prices in force) - the pool paid out more than it took in", ctx.BlockHeight(), module, p.PoolId, fmtDelta(d), val)})
		}
	}
}
