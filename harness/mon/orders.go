package mon

import (
	"fmt"
	"strings"

	"cosmossdk.io/math"
	sdk "github.com/cosmos/cosmos-sdk/types"
	tstypes "github.com/elys-network/elys/x/tradeshield/types"

	"verifharness/chain"
)

// C20: funds escrowed for pending orders are safe and only the owner controls them.
// Escrow ledger: for every tradeshield transaction (by anyone) the monitor snapshots, before the
// message, every pending order record, its escrow balance, every owner's wallet and MTPs, and the
// trigger condition of the orders an execution request names (evaluated by the monitor per order
// type from the market price the handler will read); after the tx it checks conservation.

type ordSnap struct {
	kind    string // spot | perp
	id      uint64
	owner   string
	escrow  string
	coin    sdk.Coin
	record  string
	escBal  map[string]math.Int
	otype   string
	trig    *bool // nil = could not be evaluated (no price)
	trigTxt string
}

type C20 struct {
	st     *Stats
	pre    map[string]*ordSnap
	wallet map[string]map[string]math.Int
	mtps   map[string]string
	tx     *chain.TxRecord
	named  map[string]bool
}

func NewC20() *C20           { return &C20{st: NewStats("C20")} }
func (m *C20) Stats() *Stats { return m.st }

func okey(kind string, id uint64) string { return fmt.Sprintf("%s/%d", kind, id) }

func (m *C20) orders(w *chain.World, ctx sdk.Context) map[string]*ordSnap {
	out := map[string]*ordSnap{}
	k := w.App.TradeshieldKeeper
	for _, o := range k.GetAllPendingSpotOrder(ctx) {
		esc := o.GetOrderAddress().String()
		out[okey("spot", o.OrderId)] = &ordSnap{kind: "spot", id: o.OrderId, owner: o.OwnerAddress, escrow: esc, coin: o.OrderAmount, record: o.String(), escBal: balMap(w, ctx, esc), otype: o.OrderType.String()}
	}
	for _, o := range k.GetAllPendingPerpetualOrder(ctx) {
		esc := o.GetOrderAddress().String()
		out[okey("perp", o.OrderId)] = &ordSnap{kind: "perp", id: o.OrderId, owner: o.OwnerAddress, escrow: esc, coin: o.Collateral, record: o.String(), escBal: balMap(w, ctx, esc), otype: o.PerpetualOrderType.String() + "/" + o.Position.String()}
	}
	return out
}

func (m *C20) mtpMap(w *chain.World, ctx sdk.Context) map[string]string {
	out := map[string]string{}
	for _, p := range w.App.PerpetualKeeper.GetAllMTPs(ctx) {
		out[lkey(p.Address, p.Id)] = fmt.Sprintf("%s/%s/%s", p.Collateral, p.Liabilities, p.Custody)
	}
	return out
}

// trigger conditions, per order type, from the market price the handler reads
func (m *C20) evalTriggers(w *chain.World, ctx sdk.Context, msg *tstypes.MsgExecuteOrders) {
	k := w.App.TradeshieldKeeper
	for _, id := range msg.SpotOrderIds {
		s := m.pre[okey("spot", id)]
		if s == nil {
			continue
		}
		m.named[okey("spot", id)] = true
		o, _ := k.GetPendingSpotOrder(ctx, id)
		pin, _ := chain.USDValueOfOne(w.App, ctx, o.OrderPrice.BaseDenom)
		pout, _ := chain.USDValueOfOne(w.App, ctx, o.OrderPrice.QuoteDenom)
		if pin.IsZero() || pout.IsZero() {
			// no market rate can be formed (one side has neither a live oracle price nor a pool
			// route to price it): no trigger condition is satisfied, the order must stay as it is
			f := false
			s.trig = &f
			s.trigTxt = fmt.Sprintf("no market price (usd value of one %s: %s, of one %s: %s)", o.OrderPrice.BaseDenom, pin, o.OrderPrice.QuoteDenom, pout)
			continue
		}
		market := pin.Quo(pout)
		var t bool
		switch o.OrderType {
		case tstypes.SpotOrderType_STOPLOSS, tstypes.SpotOrderType_LIMITBUY:
			t = market.LTE(o.OrderPrice.Rate)
		case tstypes.SpotOrderType_LIMITSELL:
			t = market.GTE(o.OrderPrice.Rate)
		default:
			t = true
		}
		s.trig = &t
		s.trigTxt = fmt.Sprintf("market %s order rate %s", market, o.OrderPrice.Rate)
	}
	for _, id := range msg.PerpetualOrderIds {
		s := m.pre[okey("perp", id)]
		if s == nil {
			continue
		}
		m.named[okey("perp", id)] = true
		o, _ := k.GetPendingPerpetualOrder(ctx, id)
		market, err := w.App.PerpetualKeeper.GetAssetPrice(ctx, o.TradingAsset)
		if err != nil {
			f := false
			s.trig = &f
			s.trigTxt = "no market price: " + err.Error()
			continue
		}
		var t bool
		if o.Position == tstypes.PerpetualPosition_LONG {
			t = market.LTE(o.TriggerPrice.Rate)
		} else {
			t = market.GTE(o.TriggerPrice.Rate)
		}
		s.trig = &t
		s.trigTxt = fmt.Sprintf("market %s trigger %s", market, o.TriggerPrice.Rate)
	}
}

func (m *C20) PreMsg(w *chain.World, ctx sdk.Context, tx *chain.TxRecord, msgIdx int, msg sdk.Msg, typeURL string) {
	if tx == nil || msg == nil || len(tx.Msgs) != 1 || !strings.HasPrefix(typeURL, "/elys.tradeshield.") {
		return
	}
	m.tx = tx
	m.pre = m.orders(w, ctx)
	m.named = map[string]bool{}
	m.wallet = map[string]map[string]math.Int{tx.Signer.S(): balMap(w, ctx, tx.Signer.S())}
	for _, s := range m.pre {
		if _, ok := m.wallet[s.owner]; !ok {
			m.wallet[s.owner] = balMap(w, ctx, s.owner)
		}
	}
	m.mtps = m.mtpMap(w, ctx)
	if x, ok := msg.(*tstypes.MsgExecuteOrders); ok {
		m.evalTriggers(w, ctx, x)
	}
}

func (m *C20) viol(w *chain.World, rule, op, otype, rel, detail string) {
	w.Report(chain.Violation{Property: "C20", Rule: rule, Scope: sc("op", op, "order_type", otype), Ops: []string{op}, Relation: rel, Detail: detail})
}

func addMaps(a, b map[string]math.Int) map[string]math.Int {
	out := map[string]math.Int{}
	for k, v := range a {
		out[k] = v
	}
	for k, v := range b {
		out[k] = zi(out, k).Add(v)
	}
	return out
}

func (m *C20) PostTx(w *chain.World, ctx sdk.Context, tx *chain.TxRecord, success bool) {
	if tx == nil || m.tx != tx {
		return
	}
	defer func() { m.tx, m.pre = nil, nil }()
	op := strings.TrimPrefix(tx.MsgType(), "/elys.tradeshield.")
	signer := tx.Signer.S()
	if !success {
		m.st.Ev("failed/" + op)
		return // rolled back as a whole (C18's twin checks that)
	}
	post := m.orders(w, ctx)
	postMtps := m.mtpMap(w, ctx)
	h := ctx.BlockHeight()
	m.st.Ev("ok/" + op)
	// funds that legitimately left the owner+escrow system in this tx, per owner
	left := map[string]map[string]math.Int{}
	executedPerp := map[string]int{} // owner -> perpetual orders of that owner executed (removed) by this tx
	for key, s := range m.pre {
		if _, still := post[key]; !still && s.kind == "perp" {
			executedPerp[s.owner]++
		}
	}
	for key, s := range m.pre {
		p, still := post[key]
		switch x := tx.Msgs[0].(type) {
		case *tstypes.MsgExecuteOrders:
			_ = x
			if !m.named[key] {
				if !still || p.record != s.record || len(diffBal(s.escBal, p.escBal)) > 0 {
					m.viol(w, "C20.unnamed_order_untouched", op, s.otype, "unnamed_order_changed", fmt.Sprintf("height %d: order %s not named by the execution request changed: %s -> %v", h, key, s.record, still))
				}
				continue
			}
			outcome := "pending"
			if !still {
				outcome = "executed"
			}
			tr := "unknown"
			if s.trig != nil {
				tr = fmt.Sprint(*s.trig)
			}
			m.st.Ev(fmt.Sprintf("exec/%s/triggered=%s/%s", s.kind, tr, outcome))
			if m.st.Eval("exec/"+key, fmt.Sprint(h, tr, outcome)) {
				m.st.Sample(map[string]interface{}{"height": h, "op": op, "order": key, "type": s.otype, "executor_is_owner": signer == s.owner, "trigger_satisfied": tr, "trigger": s.trigTxt, "outcome": outcome, "escrow_before": fmtDelta(s.escBal)})
			}
			if s.trig != nil && !*s.trig {
				// not triggered: record and escrow byte-identical
				if !still || p.record != s.record || len(diffBal(s.escBal, p.escBal)) > 0 {
					after := "removed"
					if still {
						after = p.record + " escrow " + fmtDelta(p.escBal)
					}
					m.viol(w, "C20.untriggered_order_untouched", op, s.otype, "untriggered_order_changed", fmt.Sprintf("height %d: order %s (%s) executed/changed by %s although its trigger is not satisfied (%s): %s escrow %s -> %s", h, key, s.otype, tx.Signer.Name, s.trigTxt, s.record, fmtDelta(s.escBal), after))
				}
			}
			if !still && s.kind == "perp" {
				// executed limit-open: the collateral became the collateral of a position of the owner
				newMtp := false
				for k2, v := range postMtps {
					if strings.HasPrefix(k2, s.owner+"/") && m.mtps[k2] != v {
						newMtp = true
					}
				}
				if newMtp {
					if left[s.owner] == nil {
						left[s.owner] = map[string]math.Int{}
					}
					addTo(left[s.owner], s.coin.Denom, s.coin.Amount)
				} else {
					m.viol(w, "C20.executed_open_order_creates_position", op, s.otype, "order_removed_without_position", fmt.Sprintf("height %d: perpetual order %s removed but no position of %s was created or increased", h, key, short(s.owner)))
				}
			}
			if still {
				// failed or skipped attempt: no position may have appeared or changed for the owner on its behalf
				for k2, v := range postMtps {
					if strings.HasPrefix(k2, s.owner+"/") && m.mtps[k2] != v && s.kind == "perp" && executedPerp[s.owner] == 0 {
						m.viol(w, "C20.failed_execution_leaves_nothing", op, s.otype, "position_left_behind", fmt.Sprintf("height %d: execution of order %s did not complete (order still pending) but MTP %s changed %s -> %s", h, key, k2, m.mtps[k2], v))
					}
				}
			}
		case *tstypes.MsgUpdateSpotOrder, *tstypes.MsgUpdatePerpetualOrder:
			if still && len(diffBal(s.escBal, p.escBal)) > 0 {
				m.viol(w, "C20.update_keeps_escrow", op, s.otype, "escrow_changed", fmt.Sprintf("height %d: escrow of %s changed by %s in an update", h, key, fmtDelta(diffBal(s.escBal, p.escBal))))
			}
			if (!still || p.record != s.record) && s.owner != signer {
				m.viol(w, "C20.only_owner_updates", op, s.otype, "non_owner_changed_order", fmt.Sprintf("height %d: order %s of %s changed by %s", h, key, short(s.owner), tx.Signer.Name))
			}
		default: // cancel, create
			if (!still || p.record != s.record) && s.owner != signer {
				m.viol(w, "C20.only_owner_cancels", op, s.otype, "non_owner_changed_order", fmt.Sprintf("height %d: order %s of %s changed/removed by %s", h, key, short(s.owner), tx.Signer.Name))
			}
			if !still && s.owner == signer {
				m.st.Ev("cancelled/" + s.kind)
				if m.st.Eval("cancel/"+key, fmt.Sprint(h)) {
					m.st.Sample(map[string]interface{}{"height": h, "op": op, "order": key, "type": s.otype, "escrow_returned": fmtDelta(s.escBal)})
				}
			}
		}
	}
	// conservation of wallet + escrow per owner and denom
	owners := map[string]bool{signer: true}
	for _, s := range m.pre {
		owners[s.owner] = true
	}
	for _, s := range post {
		owners[s.owner] = true
	}
	for o := range owners {
		pre := m.wallet[o]
		if pre == nil {
			continue
		}
		before := pre
		for _, s := range m.pre {
			if s.owner == o {
				before = addMaps(before, s.escBal)
			}
		}
		after := balMap(w, ctx, o)
		for key, s := range post {
			if s.owner == o {
				after = addMaps(after, s.escBal)
			}
			_ = key
		}
		// escrow of orders that disappeared: whatever is still at the escrow address is lost to the owner
		d := diffBal(before, after)
		for dn, amt := range left[o] {
			d[dn] = zi(d, dn).Add(amt)
			if d[dn].IsZero() {
				delete(d, dn)
			}
		}
		m.st.Eval("conserve/"+o, fmt.Sprint(h, fmtDelta(before)))
		if len(d) > 0 {
			m.viol(w, "C20.wallet_plus_escrow_conserved", op, "any", "wallet_plus_escrow_changed", fmt.Sprintf("height %d: %s by %s: wallet+escrow of %s changed by %s (positions opened for it account for %s)", h, op, tx.Signer.Name, short(o), fmtDelta(d), fmtDelta(left[o])))
		}
	}
	// a new order's escrow holds exactly its amount
	for key, s := range post {
		if _, existed := m.pre[key]; !existed {
			m.st.Ev("created/" + s.kind)
			if !zi(s.escBal, s.coin.Denom).Equal(s.coin.Amount) {
				m.viol(w, "C20.create_escrows_exact_amount", op, s.otype, "escrow!=amount", fmt.Sprintf("height %d: new order %s amount %s but escrow holds %s", h, key, s.coin, fmtDelta(s.escBal)))
			}
		}
	}
}
