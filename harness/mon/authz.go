package mon

import (
	"crypto/sha256"
	"encoding/hex"
	"fmt"
	"reflect"
	"sort"
	"strings"

	msgv1 "cosmossdk.io/api/cosmos/msg/v1"
	"cosmossdk.io/math"
	storetypes "cosmossdk.io/store/types"
	sdk "github.com/cosmos/cosmos-sdk/types"
	gogoproto "github.com/cosmos/gogoproto/proto"
	protov2 "google.golang.org/protobuf/proto"
	"google.golang.org/protobuf/reflect/protoreflect"

	"verifharness/chain"
)

// Digest hashes every (store, key, value) of every mounted KV and transient store of a context.
func Digest(w *chain.World, ctx sdk.Context) (string, int) {
	h := sha256.New()
	n := 0
	kv := w.App.GetKVStoreKeys()
	names := []string{}
	for k := range kv {
		names = append(names, k)
	}
	sort.Strings(names)
	walk := func(name string, st storetypes.KVStore) {
		it := st.Iterator(nil, nil)
		defer it.Close()
		for ; it.Valid(); it.Next() {
			h.Write([]byte(name))
			h.Write([]byte{0})
			h.Write(it.Key())
			h.Write([]byte{0})
			h.Write(it.Value())
			h.Write([]byte{1})
			n++
		}
	}
	for _, name := range names {
		walk(name, ctx.KVStore(kv[name]))
	}
	tk := w.App.GetTransientStoreKeys()
	tnames := []string{}
	for k := range tk {
		tnames = append(tnames, k)
	}
	sort.Strings(tnames)
	for _, name := range tnames {
		walk("t/"+name, ctx.TransientStore(tk[name]))
	}
	return hex.EncodeToString(h.Sum(nil)), n
}

// GatedMsg is one registered Elys message type with its signer field.
type GatedMsg struct {
	TypeURL     string
	SignerField string
	Gated       bool
	Why         string
}

// gated messages whose signer field is not called "authority"
var gatedByTable = map[string]string{
	"/elys.parameter.MsgUpdateMinCommission":       "x/parameter compares creator with the gov authority",
	"/elys.parameter.MsgUpdateMaxVotingPower":      "x/parameter compares creator with the gov authority",
	"/elys.parameter.MsgUpdateMinSelfDelegation":   "x/parameter compares creator with the gov authority",
	"/elys.parameter.MsgUpdateTotalBlocksPerYear":  "x/parameter compares creator with the gov authority",
	"/elys.parameter.MsgUpdateRewardsDataLifetime": "x/parameter compares creator with the gov authority",
}

// EnumerateMsgs lists every sdk.Msg implementation registered by the running app whose type URL
// starts with /elys. and that has a handler, with the signer field from cosmos.msg.v1.signer.
func EnumerateMsgs(w *chain.World) []GatedMsg {
	out := []GatedMsg{}
	for _, url := range w.App.InterfaceRegistry().ListImplementations(sdk.MsgInterfaceProtoName) {
		if !strings.HasPrefix(url, "/elys.") {
			continue
		}
		msg, err := w.App.InterfaceRegistry().Resolve(url)
		if err != nil {
			continue
		}
		sm, ok := msg.(sdk.Msg)
		if !ok || w.App.MsgServiceRouter().Handler(sm) == nil {
			continue
		}
		g := GatedMsg{TypeURL: url}
		if d, err := gogoproto.HybridResolver.FindDescriptorByName(protoreflect.FullName(strings.TrimPrefix(url, "/"))); err == nil {
			if md, ok := d.(protoreflect.MessageDescriptor); ok {
				if s, ok := protov2.GetExtension(md.Options(), msgv1.E_Signer).([]string); ok && len(s) > 0 {
					g.SignerField = s[0]
				}
			}
		}
		if g.SignerField == "authority" {
			g.Gated, g.Why = true, "signer field named authority"
		} else if why, ok := gatedByTable[url]; ok {
			g.Gated, g.Why = true, why
		}
		out = append(out, g)
	}
	sort.Slice(out, func(i, j int) bool { return out[i].TypeURL < out[j].TypeURL })
	return out
}

func goName(field string) string {
	parts := strings.Split(field, "_")
	for i, p := range parts {
		if p != "" {
			parts[i] = strings.ToUpper(p[:1]) + p[1:]
		}
	}
	return strings.Join(parts, "")
}

// SetSigner sets the message's signer field (by its Go name) to addr.
func SetSigner(msg sdk.Msg, field, addr string) bool {
	v := reflect.ValueOf(msg)
	if v.Kind() != reflect.Ptr {
		return false
	}
	f := v.Elem().FieldByName(goName(field))
	if !f.IsValid() || f.Kind() != reflect.String || !f.CanSet() {
		return false
	}
	f.SetString(addr)
	return true
}

var decType = reflect.TypeOf(math.LegacyDec{})
var intType = reflect.TypeOf(math.Int{})
var coinType = reflect.TypeOf(sdk.Coin{})

// FillGeneric builds a plausible message by reflection (fallback fixture for message types the
// hand-written table does not know).
func FillGeneric(v reflect.Value, depth int) {
	if depth > 4 {
		return
	}
	switch v.Kind() {
	case reflect.Ptr:
		if v.IsNil() && v.CanSet() {
			v.Set(reflect.New(v.Type().Elem()))
		}
		if !v.IsNil() {
			FillGeneric(v.Elem(), depth+1)
		}
	case reflect.Struct:
		switch v.Type() {
		case decType:
			v.Set(reflect.ValueOf(math.LegacyNewDecWithPrec(5, 1)))
			return
		case intType:
			v.Set(reflect.ValueOf(math.NewInt(7)))
			return
		case coinType:
			v.Set(reflect.ValueOf(sdk.NewCoin("uusdc", math.NewInt(7))))
			return
		}
		for i := 0; i < v.NumField(); i++ {
			f := v.Field(i)
			if !f.CanSet() {
				continue
			}
			name := strings.ToLower(v.Type().Field(i).Name)
			if f.Kind() == reflect.String {
				switch {
				case strings.Contains(name, "denom"):
					f.SetString("uatom")
				case strings.Contains(name, "address") || name == "feeder" || name == "user":
					f.SetString(chain.MkActor("user3").S())
				default:
					f.SetString("verif")
				}
				continue
			}
			FillGeneric(f, depth+1)
		}
	case reflect.Slice:
		if v.Type().Elem().Kind() == reflect.Uint8 {
			return
		}
		el := reflect.New(v.Type().Elem()).Elem()
		if el.Kind() == reflect.String {
			el.SetString(chain.MkActor("user3").S())
		} else {
			FillGeneric(el, depth+1)
		}
		v.Set(reflect.Append(reflect.MakeSlice(v.Type(), 0, 1), el))
	case reflect.Uint64, reflect.Uint32:
		v.SetUint(1)
	case reflect.Int64, reflect.Int32:
		v.SetInt(1)
	case reflect.Bool:
		v.SetBool(true)
	}
}

// CloneMsg deep-copies a message through its protobuf encoding.
func CloneMsg(w *chain.World, m sdk.Msg) sdk.Msg {
	bz, err := gogoproto.Marshal(m)
	if err != nil {
		panic(err)
	}
	n, err := w.App.InterfaceRegistry().Resolve(sdk.MsgTypeURL(m))
	if err != nil {
		panic(err)
	}
	if err := gogoproto.Unmarshal(bz, n); err != nil {
		panic(err)
	}
	return n.(sdk.Msg)
}

// AddressesIn lists every account address that appears in a string field of the message.
func AddressesIn(m sdk.Msg) []string {
	out := []string{}
	seen := map[string]bool{}
	var walk func(v reflect.Value, depth int)
	walk = func(v reflect.Value, depth int) {
		if depth > 4 {
			return
		}
		switch v.Kind() {
		case reflect.Ptr:
			if !v.IsNil() {
				walk(v.Elem(), depth+1)
			}
		case reflect.Struct:
			for i := 0; i < v.NumField(); i++ {
				walk(v.Field(i), depth+1)
			}
		case reflect.Slice:
			for i := 0; i < v.Len() && i < 8; i++ {
				walk(v.Index(i), depth+1)
			}
		case reflect.String:
			s := v.String()
			if _, err := sdk.AccAddressFromBech32(s); err == nil && !seen[s] {
				seen[s] = true
				out = append(out, s)
			}
		}
	}
	walk(reflect.ValueOf(m), 0)
	return out
}

// AuthResult is the outcome of the in-process sweep on one state.
type AuthResult struct {
	Gated          int
	Senders        int
	Evaluations    int
	Uncovered      []string
	GenericFixture []string
}

// CheckGated calls every gated message's handler, with the signer field set to each sender of
// every class, on a discarded branch of ctx: the call must fail and the digest of all stores must
// be identical before and after. Positive control: the same fixture with the governance address
// must not be rejected with the same error.
func CheckGated(w *chain.World, st *Stats, fixtures map[string][]sdk.Msg, senders map[string][]string) AuthResult {
	res := AuthResult{}
	base := w.ReadCtx()
	d0, entries := Digest(w, base)
	classes := []string{}
	for c := range senders {
		classes = append(classes, c)
	}
	sort.Strings(classes)
	for _, g := range EnumerateMsgs(w) {
		if !g.Gated {
			continue
		}
		res.Gated++
		fxs, ok := fixtures[g.TypeURL]
		generic := false
		if !ok || len(fxs) == 0 {
			m, err := w.App.InterfaceRegistry().Resolve(g.TypeURL)
			if err != nil {
				res.Uncovered = append(res.Uncovered, g.TypeURL+": cannot instantiate")
				continue
			}
			FillGeneric(reflect.ValueOf(m), 0)
			fxs = []sdk.Msg{m.(sdk.Msg)}
			generic = true
			res.GenericFixture = append(res.GenericFixture, g.TypeURL)
		}
		for _, fx := range fxs {
			// every address the fixture itself names (its target) is a sender to try as well
			targets := AddressesIn(fx)
			call := func(addr string) (err error, digest string) {
				m := CloneMsg(w, fx)
				if !SetSigner(m, g.SignerField, addr) {
					return fmt.Errorf("verif: cannot set signer field %s", g.SignerField), d0
				}
				br, _ := base.CacheContext()
				func() {
					defer func() {
						if r := recover(); r != nil {
							err = fmt.Errorf("panic: %v", r)
						}
					}()
					_, err = w.App.MsgServiceRouter().Handler(m)(br, m)
				}()
				digest, _ = Digest(w, br)
				return
			}
			// positive control
			govErr, _ := call(w.Gov)
			reached := false
			var firstUserErr error
			for _, cl := range append(append([]string{}, classes...), "fixture_target") {
				list := senders[cl]
				if cl == "fixture_target" {
					list = targets
				}
				for _, addr := range list {
					if addr == w.Gov {
						continue
					}
					err, d1 := call(addr)
					res.Evaluations++
					st.EvalCase(g.TypeURL + "|" + cl + "|" + addr + "|" + d0[:12])
					if firstUserErr == nil {
						firstUserErr = err
					}
					short := strings.TrimPrefix(g.TypeURL, "/elys.")
					if err == nil {
						w.Report(chain.Violation{Property: "C17", Rule: "C17.gated_msg_rejected", Scope: sc("msg", short, "sender_class", cl), Ops: []string{short}, Relation: "accepted_from_non_authority",
							Detail: fmt.Sprintf("height %d: %s with %s=%s (%s) was accepted by its handler", w.Height, short, g.SignerField, addr, cl)})
					}
					if d1 != d0 {
						w.Report(chain.Violation{Property: "C17", Rule: "C17.rejected_msg_leaves_state_unchanged", Scope: sc("msg", short, "sender_class", cl), Ops: []string{short}, Relation: "state_changed",
							Detail: fmt.Sprintf("height %d: %s with %s=%s (%s): store digest changed (err=%v)", w.Height, short, g.SignerField, addr, cl, err)})
					}
				}
			}
			if firstUserErr != nil && (govErr == nil || govErr.Error() != firstUserErr.Error()) {
				reached = true
			}
			if !reached {
				res.Uncovered = append(res.Uncovered, fmt.Sprintf("%s: fixture (generic=%v) does not reach the signer check (gov err: %v, user err: %v)", g.TypeURL, generic, govErr, firstUserErr))
			}
			if len(st.Samples) < 8 {
				ue := ""
				if firstUserErr != nil {
					ue = firstUserErr.Error()
					if len(ue) > 120 {
						ue = ue[:120]
					}
				}
				st.Sample(map[string]interface{}{"height": w.Height, "msg": g.TypeURL, "signer_field": g.SignerField, "why_gated": g.Why, "sender_classes": classes, "non_authority_error": ue, "authority_accepted_or_other_error": fmt.Sprint(govErr), "state_entries_hashed": entries})
			}
		}
	}
	for _, c := range classes {
		res.Senders += len(senders[c])
	}
	return res
}

// C17 is a plain stats holder; the sweep is driven by the scenario.
type C17 struct{ st *Stats }

func NewC17() *C17           { return &C17{st: NewStats("C17")} }
func (m *C17) Stats() *Stats { return m.st }
