package mon

import (
	"fmt"
	"sort"
	"strings"

	"cosmossdk.io/math"
	sdk "github.com/cosmos/cosmos-sdk/types"
	oracletypes "github.com/elys-network/elys/x/oracle/types"

	"verifharness/chain"
)

// C16: the oracle serves the newest live price of exactly the asked asset from the preferred
// source; only registered, active feeders can write. The reference is a plain map maintained from
// the observed successful feed messages and the end-block expiry rule.

type refPrice struct {
	Asset, Source string
	Price         math.LegacyDec
	TS            uint64
	Height        uint64
	Provider      string
	collided      bool // another (asset, source) pair with the same concatenation was written at the same timestamp
}

type C16 struct {
	st                  *Stats
	ref                 map[string]*refPrice // asset \x00 source \x00 ts -> entry
	feeders             map[string]bool      // address -> active (absent = not a feeder)
	Names               []string             // asset names to look up
	Denoms              []string
	inited              bool
	collide             map[string]string // raw store key -> ref key currently owning it (documents store-key collisions)
	pendAdd, pendRemove []string
}

func NewC16() *C16 {
	return &C16{st: NewStats("C16"), ref: map[string]*refPrice{}, feeders: map[string]bool{}, collide: map[string]string{}}
}
func (m *C16) Stats() *Stats { return m.st }

func rk(a, s string, ts uint64) string { return fmt.Sprintf("%s\x00%s\x00%020d", a, s, ts) }

func (m *C16) init(w *chain.World, ctx sdk.Context) {
	if m.inited {
		return
	}
	m.inited = true
	for _, f := range w.App.OracleKeeper.GetAllPriceFeeder(ctx) {
		m.feeders[f.Feeder] = f.IsActive
	}
	for _, p := range w.App.OracleKeeper.GetAllPrice(ctx) {
		m.ref[rk(p.Asset, p.Source, p.Timestamp)] = &refPrice{Asset: p.Asset, Source: p.Source, Price: p.Price, TS: p.Timestamp, Height: p.BlockHeight, Provider: p.Provider}
	}
}

// PendingGov lets a scenario announce feeder-set changes it has put to a governance vote; they
// are applied to the reference in the block in which the chain's feeder store shows exactly them.
func (m *C16) PendingGov(add []string, remove []string) {
	m.pendAdd, m.pendRemove = add, remove
}

func (m *C16) set(p *refPrice) {
	// two different (asset, source) pairs whose concatenation is equal share one store key
	raw := p.Asset + p.Source + fmt.Sprintf("/%020d", p.TS)
	k := rk(p.Asset, p.Source, p.TS)
	if prev, ok := m.collide[raw]; ok && prev != k {
		m.st.Ev("store_key_collision")
		if q := m.ref[prev]; q != nil {
			q.collided = true
		}
	}
	m.collide[raw] = k
	m.ref[k] = p
}

// expected lookup result for an asset from the reference: Elys, then Band, then any source.
func (m *C16) expect(asset string) (cands []*refPrice, found bool) {
	bySrc := map[string]*refPrice{}
	for _, p := range m.ref {
		if p.Asset != asset {
			continue
		}
		if q, ok := bySrc[p.Source]; !ok || p.TS > q.TS {
			bySrc[p.Source] = p
		}
	}
	if p, ok := bySrc[oracletypes.ELYS]; ok {
		return []*refPrice{p}, true
	}
	if p, ok := bySrc[oracletypes.BAND]; ok {
		return []*refPrice{p}, true
	}
	// "then any": the newest entry of any one source is acceptable (which source is served is
	// not fixed by the property; the repository's own test pins the order by source name)
	for _, p := range bySrc {
		cands = append(cands, p)
	}
	return cands, len(cands) > 0
}

func (m *C16) lookups(w *chain.World, ctx sdk.Context, where string) {
	k := w.App.OracleKeeper
	for _, name := range m.Names {
		got, found := k.GetAssetPrice(ctx, name)
		cands, exp := m.expect(name)
		coll := false
		for _, c := range cands {
			if c.collided {
				coll = true
			}
		}
		desc := "none"
		if found {
			desc = fmt.Sprintf("%s/%s@%d=%s", got.Asset, got.Source, got.Timestamp, got.Price)
		}
		if m.st.Eval("lookup/"+name, desc) && found {
			m.st.Sample(map[string]interface{}{"height": ctx.BlockHeight(), "at": where, "asked": name, "returned_asset": got.Asset, "source": got.Source, "timestamp": got.Timestamp, "price": got.Price.String(), "reference_candidates": len(cands)})
		}
		switch {
		case found && got.Asset != name:
			w.Report(chain.Violation{Property: "C16", Rule: "C16.lookup_returns_asked_asset", Scope: sc("kind", "foreign_asset"), Relation: "foreign_asset_returned",
				Detail: fmt.Sprintf("%s height %d: GetAssetPrice(%q) returned asset %q source %q ts %d", where, ctx.BlockHeight(), name, got.Asset, got.Source, got.Timestamp)})
		case found != exp:
			rel := fmt.Sprintf("found=%v,reference=%v", found, exp)
			if coll {
				rel = "store_key_collision"
			}
			w.Report(chain.Violation{Property: "C16", Rule: "C16.found_iff_live_reference", Scope: sc("kind", fmt.Sprintf("found=%v", found)), Relation: rel,
				Detail: fmt.Sprintf("%s height %d: GetAssetPrice(%q) found=%v (%s) but the reference has live entry=%v", where, ctx.BlockHeight(), name, found, desc, exp)})
		case found:
			ok := false
			for _, c := range cands {
				if c.Source == got.Source && c.TS == got.Timestamp && c.Price.Equal(got.Price) {
					ok = true
				}
			}
			if !ok {
				c := cands[0]
				rel := "wrong_entry"
				if c.Source != got.Source {
					rel = "wrong_source"
				} else if c.TS != got.Timestamp {
					rel = "not_newest"
				} else {
					rel = "wrong_price"
				}
				kind := rel
				if coll {
					rel = "store_key_collision"
				}
				w.Report(chain.Violation{Property: "C16", Rule: "C16.lookup_returns_preferred_newest", Scope: sc("kind", kind), Relation: rel,
					Detail: fmt.Sprintf("%s height %d: GetAssetPrice(%q) returned %s, reference expects %s/%s@%d=%s", where, ctx.BlockHeight(), name, desc, c.Asset, c.Source, c.TS, c.Price)})
			}
		}
	}
	for _, dn := range m.Denoms {
		got := k.GetAssetPriceFromDenom(ctx, dn)
		info, ok := k.GetAssetInfo(ctx, dn)
		exp := math.LegacyZeroDec()
		var cands []*refPrice
		if ok {
			var f bool
			cands, f = m.expect(info.Display)
			_ = f
		}
		match := len(cands) == 0 && got.IsZero()
		pow := math.LegacyOneDec()
		for i := uint64(0); ok && i < info.Decimal; i++ {
			pow = pow.MulInt64(10)
		}
		for _, c := range cands {
			exp = c.Price.Quo(pow)
			if exp.Equal(got) {
				match = true
			}
		}
		m.st.Eval("denom/"+dn, got.String())
		if !match {
			rel := "denom_price_mismatch"
			for _, c := range cands {
				if c.collided {
					rel = "store_key_collision"
				}
			}
			w.Report(chain.Violation{Property: "C16", Rule: "C16.denom_price", Scope: sc("kind", "denom"), Relation: rel,
				Detail: fmt.Sprintf("%s height %d: GetAssetPriceFromDenom(%q)=%s, reference expects %s (asset info found=%v, %d candidates)", where, ctx.BlockHeight(), dn, got, exp, ok, len(cands))})
		}
	}
}

func (m *C16) PreMsg(w *chain.World, ctx sdk.Context, tx *chain.TxRecord, msgIdx int, msg sdk.Msg, typeURL string) {
	m.init(w, ctx)
	if strings.HasPrefix(typeURL, "/elys.oracle.") || strings.HasPrefix(typeURL, "/cosmos.") {
		return
	}
	m.lookups(w, ctx, "pre-msg "+strings.TrimPrefix(typeURL, "/elys."))
}

func (m *C16) PostTx(w *chain.World, ctx sdk.Context, tx *chain.TxRecord, success bool) {
	m.init(w, ctx)
	if tx == nil {
		return
	}
	ts, h := uint64(ctx.BlockTime().Unix()), uint64(ctx.BlockHeight())
	for _, msg := range tx.Msgs {
		var who string
		var fps []oracletypes.FeedPrice
		switch x := msg.(type) {
		case *oracletypes.MsgFeedPrice:
			who, fps = x.Provider, []oracletypes.FeedPrice{x.FeedPrice}
		case *oracletypes.MsgFeedMultiplePrices:
			who, fps = x.Creator, x.FeedPrices
		case *oracletypes.MsgSetPriceFeeder:
			if success {
				m.feeders[x.Feeder] = x.IsActive
				m.st.Ev("feeder_set_active_" + fmt.Sprint(x.IsActive))
			}
			continue
		case *oracletypes.MsgDeletePriceFeeder:
			if success {
				delete(m.feeders, x.Feeder)
				m.st.Ev("feeder_deleted")
			}
			continue
		default:
			continue
		}
		active, isFeeder := m.feeders[who]
		authorised := isFeeder && active
		m.st.Eval("write/"+who, fmt.Sprint(authorised, success, ts))
		if success && !authorised {
			w.Report(chain.Violation{Property: "C16", Rule: "C16.only_active_feeders_write", Scope: sc("kind", fmt.Sprintf("feeder=%v,active=%v", isFeeder, active)), Relation: "unauthorised_write_accepted",
				Detail: fmt.Sprintf("height %d: price feed from %s accepted although the reference feeder set says registered=%v active=%v", h, who, isFeeder, active)})
		}
		if !success && authorised {
			m.st.Ev("authorised_feed_failed")
		}
		if !success {
			m.st.Ev("rejected_feed")
			continue
		}
		m.st.Ev("accepted_feed")
		for _, fp := range fps {
			m.set(&refPrice{Asset: fp.Asset, Source: fp.Source, Price: fp.Price, TS: ts, Height: h, Provider: who})
		}
	}
}

func (m *C16) AfterCommit(w *chain.World, blk *chain.BlockRecord) {
	if w.Dead {
		return
	}
	ctx := w.ReadCtx()
	m.init(w, ctx)
	// end-block expiry rule with the parameters in force
	params := w.App.OracleKeeper.GetParams(ctx)
	now, h := uint64(w.Now), uint64(w.Height)
	for k, p := range m.ref {
		if p.TS+params.PriceExpiryTime < now || p.Height+params.LifeTimeInBlocks < h {
			delete(m.ref, k)
			m.st.Ev("expired")
		}
	}
	// full equivalence of the price store with the reference
	chainSet := map[string]string{}
	for _, p := range w.App.OracleKeeper.GetAllPrice(ctx) {
		chainSet[rk(p.Asset, p.Source, p.Timestamp)] = p.Price.String()
	}
	keys := map[string]bool{}
	for k := range chainSet {
		keys[k] = true
	}
	for k := range m.ref {
		keys[k] = true
	}
	ks := []string{}
	for k := range keys {
		ks = append(ks, k)
	}
	sort.Strings(ks)
	for _, k := range ks {
		cp, inChain := chainSet[k]
		rp, inRef := m.ref[k]
		if inChain && inRef && rp.Price.String() == cp {
			continue
		}
		parts := strings.Split(k, "\x00")
		rel := "price_differs"
		if !inChain {
			rel = "missing_in_store"
		} else if !inRef {
			rel = "stale_or_unknown_in_store"
		}
		if !inChain && inRef && rp.collided {
			rel = "store_key_collision"
		}
		w.Report(chain.Violation{Property: "C16", Rule: "C16.store_equals_reference", Scope: sc("kind", rel), Relation: rel, Ops: OpsOf(blk),
			Detail: fmt.Sprintf("height %d: price entry asset=%q source=%q ts=%s: store has=%v reference has=%v", w.Height, parts[0], parts[1], strings.TrimLeft(parts[2], "0"), inChain, inRef)})
		if !inChain {
			delete(m.ref, k)
		} else {
			for _, p := range w.App.OracleKeeper.GetAllPrice(ctx) {
				if rk(p.Asset, p.Source, p.Timestamp) == k {
					m.ref[k] = &refPrice{Asset: p.Asset, Source: p.Source, Price: p.Price, TS: p.Timestamp, Height: p.BlockHeight, Provider: p.Provider}
				}
			}
		}
	}
	m.st.Eval("store", fmt.Sprint(len(chainSet), w.Height))
	// the feeder set itself
	cf := map[string]bool{}
	for _, f := range w.App.OracleKeeper.GetAllPriceFeeder(ctx) {
		cf[f.Feeder] = f.IsActive
	}
	if fmt.Sprint(cf) != fmt.Sprint(m.feeders) && (len(m.pendAdd) > 0 || len(m.pendRemove) > 0) {
		try := map[string]bool{}
		for k, v := range m.feeders {
			try[k] = v
		}
		for _, a := range m.pendAdd {
			try[a] = true
		}
		for _, r := range m.pendRemove {
			delete(try, r)
		}
		if fmt.Sprint(try) == fmt.Sprint(cf) {
			m.feeders = try
			m.pendAdd, m.pendRemove = nil, nil
			m.st.Ev("gov_feeder_change_applied")
		}
	}
	if fmt.Sprint(cf) != fmt.Sprint(m.feeders) {
		w.Report(chain.Violation{Property: "C16", Rule: "C16.feeder_set_matches_reference", Scope: sc("kind", "feeder_set"), Ops: OpsOf(blk), Detail: fmt.Sprintf("height %d: chain feeders %v reference %v", w.Height, cf, m.feeders)})
		m.feeders = cf
	}
	m.lookups(w, ctx, "commit")
}
