package mon

import (
	"fmt"
	"math/big"
	"strings"

	"cosmossdk.io/math"
	sdk "github.com/cosmos/cosmos-sdk/types"
	ammtypes "github.com/elys-network/elys/x/amm/types"
	lptypes "github.com/elys-network/elys/x/leveragelp/types"

	"verifharness/chain"
	"verifharness/ref"
)

// C05 (application part): around every join / exit (also the ones leveraged-LP opens and closes
// perform) the per-share value of the liquidity left behind never decreases.
type poolSnap struct {
	id      uint64
	oracle  bool
	denoms  []string
	book    []*big.Int
	acc     []*big.Int
	weights []int64
	shares  *big.Int
	price   []*big.Int
}

type C05 struct {
	st  *Stats
	pre map[uint64]*poolSnap
	tx  *chain.TxRecord
}

func NewC05() *C05           { return &C05{st: NewStats("C05")} }
func (m *C05) Stats() *Stats { return m.st }

func gcd(a, b int64) int64 {
	for b != 0 {
		a, b = b, a%b
	}
	return a
}

func (m *C05) snap(w *chain.World, ctx sdk.Context) map[uint64]*poolSnap {
	out := map[uint64]*poolSnap{}
	for _, p := range w.App.AmmKeeper.GetAllPool(ctx) {
		s := &poolSnap{id: p.PoolId, oracle: p.PoolParams.UseOracle, shares: p.TotalShares.Amount.BigInt()}
		g := int64(0)
		for _, a := range p.PoolAssets {
			s.denoms = append(s.denoms, a.Token.Denom)
			s.book = append(s.book, a.Token.Amount.BigInt())
			// accounted balance = recorded reserve + what the perpetual positions owe the pool - what they
			// hold of it, built from the current reserve and the accounted pool's non-amm part (not from
			// the stored total, which is what the code under test has to keep fresh)
			ab := a.Token.Amount
			if ap, found := w.App.AccountedPoolKeeper.GetAccountedPool(ctx, p.PoolId); found && p.PoolParams.UseOracle {
				for _, na := range ap.NonAmmPoolTokens {
					if na.Denom == a.Token.Denom && ab.Add(na.Amount).IsPositive() {
						ab = ab.Add(na.Amount)
					}
				}
			}
			s.acc = append(s.acc, ab.BigInt())
			wv := a.Weight.Quo(math.NewInt(1 << 20)).Int64() // weights are stored scaled by 2^30
			if wv == 0 {
				wv = a.Weight.Int64()
			}
			s.weights = append(s.weights, wv)
			g = gcd(g, wv)
			s.price = append(s.price, w.App.OracleKeeper.GetAssetPriceFromDenom(ctx, a.Token.Denom).BigInt())
		}
		for i := range s.weights {
			if g > 0 {
				s.weights[i] /= g
			}
		}
		out[p.PoolId] = s
	}
	return out
}

func (m *C05) PreMsg(w *chain.World, ctx sdk.Context, tx *chain.TxRecord, msgIdx int, msg sdk.Msg, typeURL string) {
	if tx == nil || msg == nil || len(tx.Msgs) != 1 {
		return
	}
	switch msg.(type) {
	case *ammtypes.MsgJoinPool, *ammtypes.MsgExitPool, *lptypes.MsgOpen, *lptypes.MsgClose, *lptypes.MsgClosePositions:
		m.pre, m.tx = m.snap(w, ctx), tx
	}
}

func (m *C05) PostTx(w *chain.World, ctx sdk.Context, tx *chain.TxRecord, success bool) {
	if tx == nil || m.tx != tx {
		return
	}
	pre := m.pre
	m.pre, m.tx = nil, nil
	if !success {
		return
	}
	op := strings.TrimPrefix(tx.MsgType(), "/elys.")
	post := m.snap(w, ctx)
	for id, a := range pre {
		b := post[id]
		if b == nil || a.shares.Cmp(b.shares) == 0 {
			continue // shares unchanged: not a join / exit of this pool
		}
		kind := "join"
		if b.shares.Cmp(a.shares) < 0 {
			kind = "exit"
		}
		m.st.Ev(fmt.Sprintf("%s/pool%d/oracle=%v", kind, id, a.oracle))
		if m.st.Eval(fmt.Sprintf("pershare/%d", id), fmt.Sprint(b.book, b.shares)) {
			m.st.Sample(map[string]interface{}{"height": ctx.BlockHeight(), "op": op, "pool": id, "kind": kind, "oracle_pool": a.oracle, "reserves_before": fmt.Sprint(a.book), "reserves_after": fmt.Sprint(b.book), "shares_before": a.shares.String(), "shares_after": b.shares.String()})
		}
		for i := range b.book {
			if b.book[i].Sign() <= 0 {
				w.Report(chain.Violation{Property: "C05", Rule: "C05.exit_leaves_reserves_positive", Scope: sc("pool", fmt.Sprint(id), "op", op), Ops: []string{op}, Detail: fmt.Sprintf("height %d: %s left reserve %s of %s in pool %d", ctx.BlockHeight(), op, b.book[i], b.denoms[i], id)})
			}
		}
		if b.shares.Sign() <= 0 {
			w.Report(chain.Violation{Property: "C05", Rule: "C05.exit_leaves_shares_positive", Scope: sc("pool", fmt.Sprint(id), "op", op), Ops: []string{op}, Detail: fmt.Sprintf("height %d: %s left total shares %s in pool %d", ctx.BlockHeight(), op, b.shares, id)})
			continue
		}
		ok := true
		why := ""
		if a.oracle {
			// accounted TVL per share at the oracle prices in force: (tvl' + units) * S >= tvl * S'
			t0, t1, unit := new(big.Int), new(big.Int), new(big.Int)
			priced := true
			for i := range a.acc {
				if a.price[i].Sign() == 0 {
					priced = false
				}
				t0.Add(t0, new(big.Int).Mul(a.acc[i], a.price[i]))
				t1.Add(t1, new(big.Int).Mul(b.acc[i], a.price[i]))
				unit.Add(unit, new(big.Int).Mul(big.NewInt(2), a.price[i]))
			}
			if !priced {
				continue
			}
			// The implementation prices single-sided joins / single-denom exits with the accounted
			// balances (reserves + perpetual liabilities - custody) and all-asset exits pro rata of the
			// book reserves; the property speaks of "the value of the liquidity", so a decrease is a
			// violation only if it shows under both measures.
			b0, b1 := new(big.Int), new(big.Int)
			for i := range a.book {
				b0.Add(b0, new(big.Int).Mul(a.book[i], a.price[i]))
				b1.Add(b1, new(big.Int).Mul(b.book[i], a.price[i]))
			}
			okAcc := new(big.Int).Mul(new(big.Int).Add(t1, unit), a.shares).Cmp(new(big.Int).Mul(t0, b.shares)) >= 0
			okBook := new(big.Int).Mul(new(big.Int).Add(b1, unit), a.shares).Cmp(new(big.Int).Mul(b0, b.shares)) >= 0
			ok = okAcc || okBook
			if okAcc != okBook {
				m.st.Ev("oracle_pool_measures_disagree")
			}
			why = fmt.Sprintf("accounted TVL %s -> %s, book TVL %s -> %s (raw), shares %s -> %s", t0, t1, b0, b1, a.shares, b.shares)
		} else {
			// constant product: prod(B^w)/S must not decrease (covers all-asset and single-asset forms)
			allow := make([]*big.Int, len(a.book))
			for i := range allow {
				al := new(big.Int).Div(a.book[i], big.NewInt(100_000_000))
				allow[i] = al.Add(al, big.NewInt(1))
			}
			ok = ref.ValueNotDecreased(a.book, b.book, a.weights, a.shares, b.shares, allow)
			why = fmt.Sprintf("reserves %v -> %v weights %v shares %s -> %s", a.book, b.book, a.weights, a.shares, b.shares)
		}
		if !ok {
			w.Report(chain.Violation{Property: "C05", Rule: "C05.remaining_value_per_share", Scope: sc("pool", fmt.Sprint(id), "kind", kind, "oracle", fmt.Sprint(a.oracle)), Ops: []string{op}, Relation: "per_share_value_decreased",
				Detail: fmt.Sprintf("height %d: %s (%s of pool %d) decreased the per-share value of the liquidity left behind: %s", ctx.BlockHeight(), op, kind, id, why)})
		}
	}
}
