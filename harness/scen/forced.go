package scen

import (
	"cosmossdk.io/math"
	sdk "github.com/cosmos/cosmos-sdk/types"
	ammtypes "github.com/elys-network/elys/x/amm/types"
	lpkeeper "github.com/elys-network/elys/x/leveragelp/keeper"
	lptypes "github.com/elys-network/elys/x/leveragelp/types"
	perptypes "github.com/elys-network/elys/x/perpetual/types"

	"verifharness/chain"
	"verifharness/gen"
	"verifharness/run"
)

var MixForced = gen.Mix{"levOpen": 12, "levClose": 5, "levStop": 5, "levBot": 12, "perpOpen": 14, "perpClose": 5, "perpSL": 6, "perpTP": 5, "perpBot": 14,
	"swapIn1": 10, "swapOut1": 4, "joinSingle": 3, "joinAll": 2, "exit": 3, "bond": 3, "unbond": 2}

// forced: positions of many owners, bots naming arbitrary (owner, id) pairs in all lists, price
// paths that crash, spike and hover around liquidation / trigger prices, interest accrual over long
// gaps, stop-loss removal, governance raising the safety factors between blocks.
func init() {
	run.Register("forced", func(c *run.Ctx) {
		v := NewVariant(c)
		w := v.World(c, true, 14)
		w.Prologue(chain.PrologueCfg{Scale: v.Scale, Pool3: v.Pool3, W2A: v.W2A, W2B: v.W2B, Fee1: v.Fee1, Fee2: v.Fee2, Bond: v.Scale * 2})
		v.Sweep(w)
		u := w.Users
		atom := func() math.LegacyDec { return w.Prices["ATOM"] }
		S := v.Scale
		// boundary probe: governance sets the leveragelp safety factor to exactly the health a certain
		// open will have (measured by running that open on a discarded branch); on an otherwise idle
		// chain the pool does not move during the voting blocks, so the real open lands on the boundary:
		// health == safety factor is liquidatable, hence the open must be refused
		if c.Job.Index%2 == 0 && !w.Dead {
			pr := u[9]
			probe := &lptypes.MsgOpen{Creator: pr.S(), CollateralAsset: "uusdc", CollateralAmount: math.NewInt(S/3000 + int64(c.Job.Index)), AmmPoolId: 1, Leverage: chain.Dec([]string{"5", "3", "7.5"}[c.Job.Index/2%3]), StopLossPrice: math.LegacyZeroDec()}
			cc, _ := w.ReadCtx().CacheContext()
			if _, err := lpkeeper.NewMsgServerImpl(*w.App.LeveragelpKeeper).Open(cc, probe); err == nil {
				var h math.LegacyDec
				for _, p := range w.App.LeveragelpKeeper.GetAllPositions(cc) {
					if p.Address == pr.S() {
						h = p.PositionHealth
					}
				}
				orig := w.App.LeveragelpKeeper.GetParams(w.ReadCtx())
				if !h.IsNil() && h.IsPositive() {
					p2 := orig
					p2.SafetyFactor = h
					if w.GovExec("safety factor on the boundary", &lptypes.MsgUpdateParams{Authority: w.Gov, Params: &p2}) {
						b := w.Step(5, w.Tx(pr, probe))
						if !w.Dead && b.Txs[1].OK() {
							c.Ev("boundary_open_accepted")
						} else {
							c.Ev("boundary_open_refused")
						}
						w.GovExec("safety factor restored", &lptypes.MsgUpdateParams{Authority: w.Gov, Params: &orig})
					}
				}
			}
		}
		// directed: a long, a short, a leveraged LP position per owner; one short removes its stop loss
		w.Step(5,
			w.Tx(u[3], &perptypes.MsgOpen{Creator: u[3].S(), Position: perptypes.Position_LONG, Leverage: chain.Dec("5"), TradingAsset: "uatom", Collateral: chain.Coin("uusdc", S/2000), TakeProfitPrice: atom().MulInt64(3), StopLossPrice: atom().Mul(chain.Dec("0.9")), PoolId: 1}),
			w.Tx(u[4], &perptypes.MsgOpen{Creator: u[4].S(), Position: perptypes.Position_SHORT, Leverage: chain.Dec("3"), TradingAsset: "uatom", Collateral: chain.Coin("uusdc", S/2000), TakeProfitPrice: atom().QuoInt64(3), StopLossPrice: math.LegacyZeroDec(), PoolId: 1}),
			w.Tx(u[5], &lptypes.MsgOpen{Creator: u[5].S(), CollateralAsset: "uusdc", CollateralAmount: math.NewInt(S / 1000), AmmPoolId: 1, Leverage: chain.Dec("8"), StopLossPrice: math.LegacyZeroDec()}),
			w.Tx(u[6], &lptypes.MsgOpen{Creator: u[6].S(), CollateralAsset: "uusdc", CollateralAmount: math.NewInt(S / 1500), AmmPoolId: 1, Leverage: chain.Dec("2"), StopLossPrice: chain.Dec("0.5")}))
		ms := w.App.PerpetualKeeper.GetAllMTPsForAddress(w.ReadCtx(), u[4].Addr)
		if len(ms) > 0 {
			w.Step(5, w.Tx(u[4], &perptypes.MsgUpdateStopLoss{Creator: u[4].S(), Id: ms[0].Id, Price: math.LegacyZeroDec()}))
			c.Ev("short_stop_loss_removed")
		}
		// bots name everything in every list while all are healthy and untriggered
		bot := u[12]
		botAll := func() {
			ctx := w.ReadCtx()
			lr := []*lptypes.PositionRequest{}
			for _, p := range w.App.LeveragelpKeeper.GetAllPositions(ctx) {
				lr = append(lr, &lptypes.PositionRequest{Address: p.Address, Id: p.Id})
			}
			pr := []perptypes.PositionRequest{}
			for _, p := range w.App.PerpetualKeeper.GetAllMTPs(ctx) {
				pr = append(pr, perptypes.PositionRequest{Address: p.Address, Id: p.Id})
			}
			if len(lr) > 0 {
				w.Step(5, w.Tx(bot, &lptypes.MsgClosePositions{Creator: bot.S(), Liquidate: lr}))
				w.Step(5, w.Tx(bot, &lptypes.MsgClosePositions{Creator: bot.S(), StopLoss: lr}))
			}
			if len(pr) > 0 {
				w.Step(5, w.Tx(bot, &perptypes.MsgClosePositions{Creator: bot.S(), Liquidate: pr}))
				w.Step(5, w.Tx(bot, &perptypes.MsgClosePositions{Creator: bot.S(), StopLoss: pr}))
				w.Step(5, w.Tx(bot, &perptypes.MsgClosePositions{Creator: bot.S(), TakeProfit: pr}))
			}
		}
		// topUps: every owner adds a very small amount of collateral to each of its positions
		// (consolidating open without new borrowing). Called right after a price move and before any
		// bot runs: a position that is already at or under the safety factor stays there, and the
		// message must be refused.
		topUps := func() {
			ctx := w.ReadCtx()
			txs := []*chain.TxRecord{}
			k := 0
			for _, p := range w.App.PerpetualKeeper.GetAllMTPs(ctx) {
				o := w.ActorByAddr(p.Address)
				if o == nil {
					continue
				}
				amt := []int64{1, 1000, p.Collateral.Int64()/500 + 1}[k%3]
				k++
				txs = append(txs, w.Tx(o, &perptypes.MsgOpen{Creator: o.S(), Position: p.Position, Leverage: math.LegacyZeroDec(), TradingAsset: p.TradingAsset, Collateral: chain.Coin(p.CollateralAsset, amt), TakeProfitPrice: p.TakeProfitPrice, StopLossPrice: p.StopLossPrice, PoolId: p.AmmPoolId}))
			}
			for _, p := range w.App.LeveragelpKeeper.GetAllPositions(ctx) {
				o := w.ActorByAddr(p.Address)
				if o == nil {
					continue
				}
				amt := []int64{1000, p.Collateral.Amount.Int64()/500 + 1}[k%2]
				k++
				txs = append(txs, w.Tx(o, &lptypes.MsgOpen{Creator: o.S(), CollateralAsset: "uusdc", CollateralAmount: math.NewInt(amt), AmmPoolId: p.AmmPoolId, Leverage: math.LegacyOneDec(), StopLossPrice: p.StopLossPrice}))
			}
			if len(txs) > 0 {
				b := w.Step(5, txs...)
				for _, t := range b.Txs[1:] {
					if t.OK() {
						c.Ev("top_up_accepted")
					} else {
						c.Ev("top_up_refused")
					}
				}
			}
		}
		botAll()
		// stop-loss hover: a large position whose stop-loss is just reached and small ones whose
		// stop-loss is just not reached, all named in ONE stop-loss list, the large one first (closing
		// it removes a visible share of the LP supply before the others are looked at)
		hover := func() {
			if w.Dead {
				return
			}
			big, s1, s2 := u[7], u[8], u[9]
			w.Step(5, w.Tx(big, &lptypes.MsgOpen{Creator: big.S(), CollateralAsset: "uusdc", CollateralAmount: math.NewInt(S / 15), AmmPoolId: 1, Leverage: chain.Dec("4"), StopLossPrice: math.LegacyZeroDec()}),
				w.Tx(s1, &lptypes.MsgOpen{Creator: s1.S(), CollateralAsset: "uusdc", CollateralAmount: math.NewInt(S / 5000), AmmPoolId: 1, Leverage: chain.Dec("2"), StopLossPrice: math.LegacyZeroDec()}),
				w.Tx(s2, &lptypes.MsgOpen{Creator: s2.S(), CollateralAsset: "uusdc", CollateralAmount: math.NewInt(S / 7000), AmmPoolId: 1, Leverage: chain.Dec("3"), StopLossPrice: math.LegacyZeroDec()}))
			w.Step(4000) // past the 1 h lock
			ctx := w.ReadCtx()
			p1, ok := w.App.AmmKeeper.GetPool(ctx, 1)
			if !ok {
				return
			}
			lp, err := p1.LpTokenPrice(ctx, w.App.OracleKeeper, w.App.AccountedPoolKeeper)
			if err != nil {
				return
			}
			reqs := []*lptypes.PositionRequest{}
			txs := []*chain.TxRecord{}
			for i, a := range []*chain.Actor{big, s1, s2} {
				ps, _, _ := w.App.LeveragelpKeeper.GetPositionsForAddress(ctx, a.Addr, nil)
				if len(ps) == 0 {
					continue
				}
				f := []string{"1.01", "0.99", "0.97"}[i]
				txs = append(txs, w.Tx(a, &lptypes.MsgUpdateStopLoss{Creator: a.S(), Position: ps[len(ps)-1].Id, Price: lp.Mul(chain.Dec(f))}))
				reqs = append(reqs, &lptypes.PositionRequest{Address: a.S(), Id: ps[len(ps)-1].Id})
			}
			w.Step(5, txs...)
			if len(reqs) > 1 {
				w.Step(5, w.Tx(bot, &lptypes.MsgClosePositions{Creator: bot.S(), StopLoss: reqs}))
				c.Ev("stop_loss_hover_batches")
			}
		}
		hover()
		g := v.Gen(w, c, MixForced)
		g.MaxTx = 8
		g.Hostile = 0.3
		n := c.N(150, 450)
		seg := n / 5
		g.Free(seg, g.StdDt)
		// price crash: liquidation and stop-loss levels are crossed
		w.Prices["ATOM"] = atom().Mul(chain.Dec("0.72"))
		topUps()
		g.Free(3, nil)
		botAll()
		g.Free(seg, g.StdDt)
		// governance raises the safety factors between blocks
		lpP := w.App.LeveragelpKeeper.GetParams(w.ReadCtx())
		lpP.SafetyFactor = chain.Dec("1.25")
		ppP := w.App.PerpetualKeeper.GetParams(w.ReadCtx())
		ppP.SafetyFactor = chain.Dec("1.15")
		if w.GovExec("safety", &lptypes.MsgUpdateParams{Authority: w.Gov, Params: &lpP}, &perptypes.MsgUpdateParams{Authority: w.Gov, Params: &ppP}) {
			c.Ev("safety_factor_raised")
		}
		topUps()
		botAll()
		takeProfitSwitch(c, w, g)
		g.Free(seg, g.StdDt)
		// spike: shorts get into trouble, take-profits of longs trigger; then a long quiet gap (interest)
		w.Prices["ATOM"] = atom().Mul(chain.Dec("1.6"))
		topUps()
		g.Free(3, nil)
		botAll()
		g.Free(seg, func(i int) int64 {
			if i%10 == 9 {
				return 86400 * 3
			}
			return 5
		})
		botAll()
		// stale-interest top-up: a long quiet gap (nobody touches the positions, their borrow interest
		// is accrued lazily), then the price is put where one position's health, with the interest of
		// the gap counted, is just under the safety factor; in that block — before any bot — every
		// owner tops up with a very small amount: the message must be refused for that position
		if !w.Dead {
			w.Step(86400 * 45)
			ctx := w.ReadCtx()
			pk := w.App.PerpetualKeeper
			sf := pk.GetSafetyFactor(ctx)
			for _, p := range pk.GetAllMTPs(ctx) {
				if p.TradingAsset != "uatom" {
					continue
				}
				sub, _ := ctx.CacheContext()
				ammPool, err := pk.GetAmmPool(sub, p.AmmPoolId)
				if err != nil {
					continue
				}
				pk.UpdateMTPBorrowInterestUnpaidLiability(sub, &p)
				h, err := pk.GetMTPHealth(sub, p, ammPool, "uusdc")
				if err != nil || !h.IsPositive() {
					continue
				}
				ratio := sf.Mul(chain.Dec("0.995")).Quo(h)
				if p.Position == perptypes.Position_SHORT {
					ratio = math.LegacyOneDec().Quo(ratio)
				}
				if ratio.GT(chain.Dec("0.4")) && ratio.LT(chain.Dec("2.5")) {
					w.Prices["ATOM"] = atom().Mul(ratio)
					c.Ev("price_put_just_under_a_liquidation_level_after_a_long_gap")
					break
				}
			}
			topUps()
			g.Free(3, nil)
			botAll()
		}
		// every owner closes every perpetual position in full (liabilities and custody of the pool go
		// back to exactly zero), then only liquidity-pool operations follow
		for round := 0; round < 3 && !w.Dead; round++ {
			txs := []*chain.TxRecord{}
			seen := map[string]bool{}
			for _, mt := range w.App.PerpetualKeeper.GetAllMTPs(w.ReadCtx()) {
				if seen[mt.Address] {
					continue
				}
				seen[mt.Address] = true
				if a := w.ActorByAddr(mt.Address); a != nil {
					am := mt.Custody
					if mt.Position == perptypes.Position_SHORT {
						am = mt.Liabilities
					}
					txs = append(txs, w.Tx(a, &perptypes.MsgClose{Creator: a.S(), Id: mt.Id, Amount: am}))
				}
			}
			if len(txs) == 0 {
				break
			}
			w.Step(5, txs...)
		}
		if len(w.App.PerpetualKeeper.GetAllMTPs(w.ReadCtx())) == 0 {
			c.Ev("all_perpetual_positions_closed")
		}
		ammOnly := v.Gen(w, c, gen.Mix{"swapIn1": 10, "swapOut1": 5, "joinSingle": 4, "joinAll": 3, "exit": 3})
		ammOnly.Free(12, nil)
		if c.Job.Index%3 == 1 && !w.Dead {
			NewChaos(c, w, g).Run(n-4*seg, g.StdDt)
		} else {
			g.Free(n-4*seg, g.StdDt)
		}
		// every fourth instance: governance switches the leveraged oracle pool itself to constant-product
		// mode while positions are open on it (validation accepts that), traffic goes on, it is switched
		// back
		if c.Job.Index%4 == 1 && !w.Dead {
			if p1, ok := w.App.AmmKeeper.GetPool(w.ReadCtx(), 1); ok {
				// three providers join right before the switch: their shares are under the oracle pool's
				// one-hour lock when the pool changes mode, and they try to leave right after it
				lockedIn := []*chain.Actor{u[10], u[11], u[12]}
				jt := []*chain.TxRecord{}
				for i, a := range lockedIn {
					jt = append(jt, w.Tx(a, &ammtypes.MsgJoinPool{Sender: a.S(), PoolId: 1, MaxAmountsIn: sdk.NewCoins(chain.Coin("uusdc", S/int64(50+10*i))), ShareAmountOut: math.NewInt(1)}))
				}
				w.Step(5, jt...)
				pp := p1.PoolParams
				pp.UseOracle = false
				if w.GovExec("pool 1 -> constant product", &ammtypes.MsgUpdatePoolParams{Authority: w.Gov, PoolId: 1, PoolParams: pp}) {
					c.Ev("leveraged_pool_switched_to_constant_product")
				}
				et := []*chain.TxRecord{}
				for i, a := range lockedIn {
					cm := w.App.CommitmentKeeper.GetCommitments(w.ReadCtx(), a.Addr)
					have := cm.GetCommittedAmountForDenom(ammtypes.GetPoolShareDenom(1))
					if have.IsPositive() {
						et = append(et, w.Tx(a, &ammtypes.MsgExitPool{Sender: a.S(), PoolId: 1, ShareAmountIn: have.QuoRaw(int64(2 + i)), TokenOutDenom: []string{"", "uusdc", "uatom"}[i], MinAmountsOut: sdk.NewCoins()}))
					}
				}
				if len(et) > 0 && !w.Dead {
					b := w.Step(5, et...)
					for _, t := range b.Txs[1:] {
						if t.OK() {
							c.Ev("exit_under_lock_after_mode_switch_accepted")
						} else {
							c.Ev("exit_under_lock_after_mode_switch_refused")
						}
					}
				}
				// swap-only blocks first (several swaps on the pool in one batch, nothing else touching
				// it in between), then the full mix
				swapsOnly := v.Gen(w, c, gen.Mix{"swapIn1": 10, "swapOut1": 5})
				swapsOnly.MaxTx = 10
				swapsOnly.Free(8, nil)
				// and batches of swaps that pay in the fee denom only: no fee is converted through the
				// pool, so each swap of the batch is priced on what the previous one left behind and the
				// product rule is exact
				for b := 0; b < 4 && !w.Dead; b++ {
					txs := []*chain.TxRecord{}
					for i := 0; i < 4; i++ {
						u := w.Users[(b+i)%len(w.Users)]
						amt := v.Scale/int64(900+700*i) + int64(b)
						txs = append(txs, w.Tx(u, &ammtypes.MsgSwapExactAmountIn{Sender: u.S(), Routes: []ammtypes.SwapAmountInRoute{{PoolId: 1, TokenOutDenom: "uatom"}},
							TokenIn: chain.Coin("uusdc", amt), TokenOutMinAmount: math.NewInt(1)}))
					}
					w.Step(5, txs...)
					c.Ev("fee_denom_only_swap_batch_on_switched_pool")
				}
				g.Free(12, g.StdDt)
				pp.UseOracle = true
				w.GovExec("pool 1 -> oracle", &ammtypes.MsgUpdatePoolParams{Authority: w.Gov, PoolId: 1, PoolParams: pp})
				g.Free(12, g.StdDt)
			}
		}
		// every third instance ends with the custody-exhaustion schedules of the faults catalogue
		// (a year of one block by governance, then owners close parts of their positions)
		if c.Job.Index%3 == 2 && !w.Dead {
			applyFault(c, w, g, "fast_year_then_owner_partial_closes", nil)
			applyFault(c, w, g, "gap_then_owner_partial_closes", nil)
		}
		_ = sdk.Coin{}
	})
}
