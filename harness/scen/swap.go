package scen

import (
	"cosmossdk.io/math"
	sdk "github.com/cosmos/cosmos-sdk/types"
	banktypes "github.com/cosmos/cosmos-sdk/x/bank/types"
	ammtypes "github.com/elys-network/elys/x/amm/types"

	"verifharness/chain"
	"verifharness/gen"
	"verifharness/run"
)

var MixSwap = gen.Mix{"swapIn1": 30, "swapOut1": 20, "swap2hop": 10, "swapByDenom": 10, "joinSingle": 3, "joinAll": 3, "exit": 4, "perpOpen": 4, "perpClose": 3, "levOpen": 2, "levClose": 2, "donate": 1}

func in1(s *chain.Actor, pool uint64, inDenom string, amt int64, outDenom string, min int64, rcp string) sdk.Msg {
	return &ammtypes.MsgSwapExactAmountIn{Sender: s.S(), Routes: []ammtypes.SwapAmountInRoute{{PoolId: pool, TokenOutDenom: outDenom}}, TokenIn: chain.Coin(inDenom, amt), TokenOutMinAmount: math.NewInt(min), Recipient: rcp}
}
func out1(s *chain.Actor, pool uint64, inDenom string, max int64, outDenom string, amt int64, rcp string) sdk.Msg {
	return &ammtypes.MsgSwapExactAmountOut{Sender: s.S(), Routes: []ammtypes.SwapAmountOutRoute{{PoolId: pool, TokenInDenom: inDenom}}, TokenOut: chain.Coin(outDenom, amt), TokenInMaxAmount: math.NewInt(max), Recipient: rcp}
}

// swap-batch: directed batches of swap requests from distinct observed senders in one block (same
// direction, opposite directions, limits, multi-hop routes sharing pools, foreign recipients) with
// price-moving transactions by others in the same block, each followed by an idle block; then
// swap-heavy free traffic.
func init() {
	run.Register("swap-batch", func(c *run.Ctx) {
		v := NewVariant(c)
		v.Pool3 = true
		w := v.World(c, true, 14)
		v.Prologue(w)
		u := w.Users
		S := v.Scale
		// every other instance: the price feeder reports external liquidity for the oracle pool (a
		// feeder-gated message), so its assets carry external-liquidity ratios above one and the
		// oracle pool's slippage is reduced accordingly; a user tries the same message and is refused
		extLiq := func(mult int64, depth string) {
			p1, ok := w.App.AmmKeeper.GetPool(w.ReadCtx(), 1)
			if !ok || w.Dead {
				return
			}
			info := []ammtypes.AssetAmountDepth{}
			for i, a := range p1.PoolAssets {
				name := map[string]string{"uatom": "ATOM", "uusdc": "USDC", "uelys": "ELYS"}[a.Token.Denom]
				info = append(info, ammtypes.AssetAmountDepth{Asset: name, Amount: math.LegacyNewDecFromInt(a.Token.Amount.MulRaw(mult * int64(1+i))), Depth: chain.Dec(depth)})
			}
			m := &ammtypes.MsgFeedMultipleExternalLiquidity{Sender: w.Feeder.S(), Liquidity: []ammtypes.ExternalLiquidity{{PoolId: 1, AmountDepthInfo: info}}}
			b := w.FeederStep(5, m)
			if !w.Dead && b.Txs[len(b.Txs)-1].OK() {
				c.Ev("external_liquidity_fed")
			} else {
				c.Ev("external_liquidity_feed_failed")
			}
			bad := *m
			bad.Sender = u[5].S()
			if b := w.Step(5, w.Tx(u[5], &bad)); !w.Dead && b.Txs[1].OK() {
				c.Ev("external_liquidity_fed_by_a_user")
			}
		}
		if c.Job.Index%2 == 0 {
			extLiq(10, "0.02")
		}
		fresh := chain.MkActor("fresh-recipient").S()
		mover := func(i int) *chain.TxRecord {
			a := u[12+i%2]
			switch i % 3 {
			case 0:
				return w.Tx(a, &ammtypes.MsgJoinPool{Sender: a.S(), PoolId: 1, MaxAmountsIn: sdk.NewCoins(chain.Coin("uusdc", S/50)), ShareAmountOut: math.NewInt(1)})
			case 1:
				return w.Tx(a, in1(a, 2, "uusdc", S/40, "uelys", 1, ""))
			}
			return w.Tx(a, in1(a, 3, "uatom", S/300, "uusdc", 1, ""))
		}
		batches := [][]sdk.Msg{
			// same direction x3 on the oracle pool
			{in1(u[2], 1, "uusdc", S/100, "uatom", 1, ""), in1(u[3], 1, "uusdc", S/200, "uatom", 1, ""), in1(u[4], 1, "uusdc", 7, "uatom", 1, "")},
			// opposite directions x2 on the weighted pool
			{in1(u[2], 2, "uusdc", S/100, "uelys", 1, ""), in1(u[3], 2, "uelys", S/300, "uusdc", 1, "")},
			// opposite x4 with limits (some tight, some impossible)
			{in1(u[2], 3, "uusdc", S/100, "uatom", 1, ""), in1(u[3], 3, "uatom", S/500, "uusdc", S, ""), out1(u[4], 3, "uusdc", S, "uatom", S/1000, ""), out1(u[5], 3, "uatom", 1, "uusdc", S/100, "")},
			// two-hop and one-hop sharing a pool, both forms
			{&ammtypes.MsgSwapExactAmountIn{Sender: u[2].S(), Routes: []ammtypes.SwapAmountInRoute{{PoolId: 2, TokenOutDenom: "uusdc"}, {PoolId: 3, TokenOutDenom: "uatom"}}, TokenIn: chain.Coin("uelys", S/300), TokenOutMinAmount: math.NewInt(1)},
				in1(u[3], 3, "uatom", S/800, "uusdc", 1, ""),
				&ammtypes.MsgSwapExactAmountOut{Sender: u[4].S(), Routes: []ammtypes.SwapAmountOutRoute{{PoolId: 2, TokenInDenom: "uelys"}, {PoolId: 3, TokenInDenom: "uusdc"}}, TokenOut: chain.Coin("uatom", S/2000), TokenInMaxAmount: math.NewInt(S)},
				out1(u[5], 2, "uusdc", S, "uelys", S/500, "")},
			// recipients other than the sender, every form
			{in1(u[2], 1, "uusdc", S/150, "uatom", 1, u[8].S()), out1(u[3], 2, "uusdc", S, "uelys", S/700, u[9].S()),
				&ammtypes.MsgSwapExactAmountIn{Sender: u[4].S(), Routes: []ammtypes.SwapAmountInRoute{{PoolId: 2, TokenOutDenom: "uusdc"}, {PoolId: 3, TokenOutDenom: "uatom"}}, TokenIn: chain.Coin("uelys", S/350), TokenOutMinAmount: math.NewInt(1), Recipient: u[10].S()},
				&ammtypes.MsgSwapExactAmountOut{Sender: u[5].S(), Routes: []ammtypes.SwapAmountOutRoute{{PoolId: 2, TokenInDenom: "uelys"}, {PoolId: 3, TokenInDenom: "uusdc"}}, TokenOut: chain.Coin("uatom", S/2500), TokenInMaxAmount: math.NewInt(S), Recipient: fresh},
				&ammtypes.MsgSwapByDenom{Sender: u[6].S(), Amount: chain.Coin("uusdc", S/120), MinAmount: chain.Coin("uatom", 1), MaxAmount: chain.Coin("uusdc", 0), DenomIn: "uusdc", DenomOut: "uatom", Recipient: u[11].S()},
				&ammtypes.MsgSwapByDenom{Sender: u[7].S(), Amount: chain.Coin("uelys", S/900), MinAmount: chain.Coin("uelys", 0), MaxAmount: chain.Coin("uelys", S), DenomIn: "uusdc", DenomOut: "uelys", Recipient: chain.MkActor("fresh-2").S()}},
			// requests that become impossible because an earlier one moves the price past their limit
			{in1(u[2], 3, "uusdc", S/5, "uatom", 1, ""), in1(u[3], 3, "uusdc", S/100, "uatom", int64(float64(S/100)/5.2), ""), in1(u[4], 3, "uusdc", S/100, "uatom", int64(float64(S/100)/5.05), "")},
		}
		for bi, b := range batches {
			if w.Dead {
				break
			}
			txs := []*chain.TxRecord{}
			for _, msg := range b {
				signer := w.ActorByAddr(signerOf(msg))
				txs = append(txs, w.Tx(signer, msg))
			}
			txs = append(txs, mover(bi))
			// thorough tier / odd variants permute the submission order of the same set
			if c.Job.Index%2 == 1 {
				for i, j := 0, len(txs)-1; i < j; i, j = i+1, j-1 {
					txs[i], txs[j] = txs[j], txs[i]
				}
			}
			w.Step(5, txs...)
			c.Ev("directed_batches")
			w.Step(5) // idle block: nothing may move
		}
		// opposite-direction pairs of which one side can no longer be honoured at the end of the
		// block although it was accepted: its sender (a poorly funded account) moves the input away
		// in a later transaction of the same block. Both queue orders, all three pools.
		poor := []*chain.Actor{w.AddActor("poor0"), w.AddActor("poor1")}
		fund := S / 50
		w.Step(5, w.Tx(u[12], &banktypes.MsgSend{FromAddress: u[12].S(), ToAddress: poor[0].S(), Amount: sdk.NewCoins(chain.Coin("uusdc", fund*8), chain.Coin("uelys", fund*8), chain.Coin("uatom", fund*8)).Sort()}),
			w.Tx(u[13], &banktypes.MsgSend{FromAddress: u[13].S(), ToAddress: poor[1].S(), Amount: sdk.NewCoins(chain.Coin("uusdc", fund*8), chain.Coin("uelys", fund*8), chain.Coin("uatom", fund*8)).Sort()}))
		w.RefreshSeqs()
		type pair struct {
			pool   uint64
			da, db string
		}
		for pi, pr := range []pair{{2, "uelys", "uusdc"}, {2, "uusdc", "uelys"}, {3, "uatom", "uusdc"}, {3, "uusdc", "uatom"}, {1, "uatom", "uusdc"}, {1, "uusdc", "uatom"}} {
			if w.Dead {
				break
			}
			p := poor[pi%2]
			bal := w.App.BankKeeper.GetBalance(w.ReadCtx(), p.Addr, pr.db).Amount
			if !bal.IsPositive() {
				continue
			}
			rich := u[2+pi%4]
			amtA := S / 400
			// rich: da -> db ; poor: db -> da with its whole db balance, then sends db away
			t1 := w.Tx(rich, in1(rich, pr.pool, pr.da, amtA, pr.db, 1, ""))
			t2 := w.Tx(p, in1(p, pr.pool, pr.db, bal.Int64(), pr.da, 1, ""))
			t3 := w.Tx(p, &banktypes.MsgSend{FromAddress: p.S(), ToAddress: u[13].S(), Amount: sdk.NewCoins(chain.CoinI(pr.db, bal))})
			txs := []*chain.TxRecord{t1, t2, t3}
			if pi%2 == 1 {
				txs = []*chain.TxRecord{t2, t3, t1}
			}
			w.Step(5, txs...)
			c.Ev("pair_with_one_side_unhonourable")
			w.Step(5)
			// refill the poor account for the next round
			w.Step(5, w.Tx(u[13], &banktypes.MsgSend{FromAddress: u[13].S(), ToAddress: p.S(), Amount: sdk.NewCoins(chain.CoinI(pr.db, bal))}))
		}
		g := v.Gen(w, c, MixSwap)
		g.MaxTx = 10
		g.TightLimits = 0.6
		// rebalancing bonus race: a whale pushes the oracle pool far from its target weights (the
		// weight-breaking fees fill the rebalance treasury), then several rebalancing exact-in requests
		// with limits equal to their quotes - each quoted against the whole treasury - land in one block:
		// whoever executes later finds less bonus left and must still get its minimum or nothing
		for round := 0; round < 2 && !w.Dead; round++ {
			p1, ok := w.App.AmmKeeper.GetPool(w.ReadCtx(), 1)
			if !ok {
				break
			}
			var rUsdc, rAtom math.Int
			for _, a := range p1.PoolAssets {
				if a.Token.Denom == "uusdc" {
					rUsdc = a.Token.Amount
				} else {
					rAtom = a.Token.Amount
				}
			}
			whale := u[12+round%2]
			if round == 1 {
				// second round: only a sliver of the weight-breaking fee reaches the treasury, so the
				// bonuses quoted exceed what the treasury can pay
				ap := w.App.AmmKeeper.GetParams(w.ReadCtx())
				ap.WeightBreakingFeePortion = chain.Dec("0.002")
				if w.GovExec("small treasury share", &ammtypes.MsgUpdateParams{Authority: w.Gov, Params: &ap}) {
					c.Ev("treasury_share_lowered")
				}
			}
			if round == 0 {
				w.Step(5, w.Tx(whale, in1(whale, 1, "uusdc", rUsdc.MulRaw(8).Int64(), "uatom", 1, "")))
			} else {
				w.Step(5, w.Tx(whale, in1(whale, 1, "uatom", rAtom.MulRaw(40).Int64(), "uusdc", 1, "")))
			}
			w.Step(5)
			if w.Dead {
				break
			}
			if round == 1 {
				// ... and now the whole fee rate is promised as a bonus
				ap := w.App.AmmKeeper.GetParams(w.ReadCtx())
				ap.WeightBreakingFeePortion = chain.Dec("1")
				if w.GovExec("full bonus", &ammtypes.MsgUpdateParams{Authority: w.Gov, Params: &ap}) {
					c.Ev("bonus_rate_raised_over_a_small_treasury")
				}
			}
			ctx := w.ReadCtx()
			txs := []*chain.TxRecord{}
			for i, a := range u[2:6] {
				var m sdk.Msg
				if round == 0 {
					m = in1(a, 1, "uatom", rAtom.QuoRaw(int64(12+i*5)).Int64()+1, "uusdc", 1, "")
				} else {
					m = in1(a, 1, "uusdc", rUsdc.QuoRaw(int64(12+i*5)).Int64()+1, "uatom", 1, "")
				}
				txs = append(txs, w.Tx(a, g.TightenWith(m, ctx, 0)))
			}
			w.Step(5, txs...)
			c.Ev("rebalancing_bonus_race_batches")
			w.Step(5)
		}
		swapDt := func(i int) int64 {
			if i%15 == 14 {
				return 5
			}
			return g.StdDt(i)
		}
		if c.Job.Index%4 == 2 {
			extLiq(3, "0.5")
		}
		if c.Job.Index%3 == 1 && !w.Dead {
			NewChaos(c, w, g).Run(c.N(120, 400), swapDt)
		} else {
			g.Free(c.N(120, 400), swapDt)
		}
		c.Require(w.OkCount["/elys.amm.MsgSwapExactAmountOut"] > 5 && w.OkCount["/elys.amm.MsgSwapExactAmountIn"] > 20, "swaps of both forms accepted")
	})
}

func signerOf(msg sdk.Msg) string {
	switch x := msg.(type) {
	case *ammtypes.MsgSwapExactAmountIn:
		return x.Sender
	case *ammtypes.MsgSwapExactAmountOut:
		return x.Sender
	case *ammtypes.MsgSwapByDenom:
		return x.Sender
	}
	return ""
}
