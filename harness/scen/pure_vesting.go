package scen

import (
	"fmt"
	"math/big"
	"math/rand"
	"sort"

	"cosmossdk.io/math"
	commitmenttypes "github.com/elys-network/elys/x/commitment/types"

	"verifharness/run"
)

// pure-vesting (C14): the real VestingTokens.VestedSoFar over generated (total, schedule length,
// elapsed blocks) tuples - totals from 1 to 1e30, lengths from 0 to 2e7, every elapsed value class
// (before the start, 0, 1, mid-schedule, the last block, past the end) - compared with the exact
// floor(total * min(elapsed, length) / length); along a run of increasing heights the value never
// decreases, never exceeds the total and reaches it at the end.
func init() {
	run.Register("pure-vesting", func(c *run.Ctx) {
		r := rand.New(rand.NewSource(c.Job.Sub(5)))
		st := statsOf(c, "C14")
		ps := &pureStats{c: c, st: st}
		n := c.N(40000, 200000)
		ctx := pureCtx()
		viol := func(rule, detail string) { ps.viol("C14", rule, "pure", detail) }
		for i := 0; i < n; i++ {
			total := logUniform(r, 30)
			var nb int64
			switch r.Intn(6) {
			case 0:
				nb = 0
			case 1:
				nb = int64(1 + r.Intn(3))
			case 2:
				nb = 1576800
			default:
				nb = int64(1 + r.Intn(20_000_000))
			}
			start := int64(1 + r.Intn(1_000_000))
			v := commitmenttypes.VestingTokens{Denom: "uelys", TotalAmount: math.NewIntFromBigInt(total), ClaimedAmount: math.ZeroInt(), NumBlocks: nb, StartBlock: start}
			prev := big.NewInt(0)
			els := []int64{0, 1, nb / 3, nb / 2, nb - 1, nb, nb + 1, nb * 2}
			sort.Slice(els, func(a, b int) bool { return els[a] < els[b] })
			for _, el := range els {
				if el < 0 {
					continue
				}
				h := start + el
				got := v.VestedSoFar(ctx.WithBlockHeight(h)).BigInt()
				want := new(big.Int).Set(total)
				if nb > 0 && el < nb {
					want = new(big.Int).Div(new(big.Int).Mul(total, big.NewInt(el)), big.NewInt(nb))
				}
				st.EvalCase(fmt.Sprintf("%s|%d|%d", total, nb, el))
				if got.Cmp(want) != 0 {
					viol("C14.schedule_function_exact", fmt.Sprintf("total %s over %d blocks, %d elapsed: VestedSoFar = %s, linear schedule = %s", total, nb, el, got, want))
					break
				}
				if got.Cmp(prev) < 0 || got.Cmp(total) > 0 {
					viol("C14.schedule_function_monotone", fmt.Sprintf("total %s over %d blocks, %d elapsed: VestedSoFar = %s after %s", total, nb, el, got, prev))
					break
				}
				prev = got
			}
			if i%5000 == 0 {
				st.Sample(map[string]interface{}{"case": "pure schedule function", "total": total.String(), "num_blocks": nb, "start": start})
			}
		}
	})
}
