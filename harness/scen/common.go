// Package scen holds the scenario catalogue and the per-property check specifications.
package scen

import (
	"math/rand"

	lptypes "github.com/elys-network/elys/x/leveragelp/types"

	"verifharness/chain"
	"verifharness/gen"
	"verifharness/mon"
	"verifharness/run"
)

// Variant derives the world/prologue variation of a scenario instance from (seed, index).
type Variant struct {
	R     *rand.Rand
	Scale int64
	W2A   int64
	W2B   int64
	Fee1  string
	Fee2  string
	Pool3 bool
	// LevPool2: a second oracle pool (uelys/uusdc) exists and governance enables leveragelp (and with it
	// a perpetual market and an accounted pool) on it as well
	LevPool2 bool
	// LevPool2Asset: every other such world has its second market on the SAME trading asset as pool 1
	LevPool2Asset string
	Host          float64
	Walk          float64
	Jump          int
	// SparseSweep: governance makes the leveragelp begin-block sweep sparse (few positions per
	// block, long epoch) so that interest really accrues lazily between touches of a debt; with the
	// default (1000 positions every block) every debt is refreshed in every begin-block.
	SparseSweep bool
}

func NewVariant(c *run.Ctx) *Variant {
	r := rand.New(rand.NewSource(c.Job.Sub(17)))
	v := &Variant{R: r}
	v.Scale = []int64{1e12, 1e11, 1e13, 1e10, 1e12, 3e11}[c.Job.Index%6]
	ws := [][2]int64{{2, 1}, {1, 1}, {1, 3}, {4, 1}, {3, 2}, {1, 1}}[(c.Job.Index/2)%6]
	v.W2A, v.W2B = ws[0], ws[1]
	v.Fee1 = []string{"0.002", "0.0005", "0.01", "0.003"}[r.Intn(4)]
	v.Fee2 = []string{"0.003", "0.001", "0.02", "0.0"}[r.Intn(4)]
	v.Pool3 = c.Job.Index%2 == 1
	v.Host = []float64{0.25, 0.1, 0.4}[r.Intn(3)]
	v.Walk = []float64{0.06, 0.02, 0.12}[r.Intn(3)]
	v.Jump = []int{60, 30, 0, 100}[r.Intn(4)]
	v.SparseSweep = c.Job.Index%3 != 0
	v.LevPool2 = c.Job.Index%5 == 4
	if c.Job.Index%10 == 9 {
		v.LevPool2Asset = "uatom"
	}
	return v
}

func (v *Variant) World(c *run.Ctx, probes bool, nUsers int) *chain.World {
	w := chain.NewWorld(chain.Config{NUsers: nUsers, Probes: probes})
	c.Attach(w)
	return w
}

func (v *Variant) Prologue(w *chain.World) {
	w.Prologue(chain.PrologueCfg{Scale: v.Scale, Pool3: v.Pool3, W2A: v.W2A, W2B: v.W2B, Fee1: v.Fee1, Fee2: v.Fee2, LevPool2: v.LevPool2, LevPool2Asset: v.LevPool2Asset})
	v.Sweep(w)
}

// Sweep applies the sparse-sweep governance change of this variant (if any).
func (v *Variant) Sweep(w *chain.World) {
	if !v.SparseSweep || w.Dead {
		return
	}
	p := w.App.LeveragelpKeeper.GetParams(w.ReadCtx())
	p.NumberPerBlock = int64(1 + v.R.Intn(3))
	p.EpochLength = int64([]int{1, 5, 23}[v.R.Intn(3)])
	w.GovExec("sparse sweep", &lptypes.MsgUpdateParams{Authority: w.Gov, Params: &p})
}

func (v *Variant) Gen(w *chain.World, c *run.Ctx, mix gen.Mix) *gen.Gen {
	g := gen.New(w, c.Job.Sub(99), mix)
	g.Hostile, g.Walk, g.JumpEvery, g.Pool3, g.LevPool2 = v.Host, v.Walk, v.Jump, v.Pool3, v.LevPool2
	return g
}

var MixAll = gen.Mix{"swapIn1": 14, "swapOut1": 8, "swap2hop": 5, "swapByDenom": 4, "joinSingle": 5, "joinAll": 5, "exit": 8, "levOpen": 8, "levClose": 7, "levStop": 2, "levClaim": 1, "levBot": 4,
	"perpOpen": 10, "perpClose": 8, "perpSL": 2, "perpTP": 2, "perpBot": 5, "bond": 4, "unbond": 4, "donate": 2, "mcClaim": 3, "burnSend": 1, "hostileRegistry": 1}

func mons(ms ...mon.Monitor) func() []mon.Monitor {
	return func() []mon.Monitor { return ms }
}
