package scen

import (
	"fmt"
	"math/big"
	"math/rand"

	"cosmossdk.io/math"
	sdk "github.com/cosmos/cosmos-sdk/types"
	ammtypes "github.com/elys-network/elys/x/amm/types"

	"verifharness/chain"
	"verifharness/mon"
	"verifharness/ref"
	"verifharness/run"
)

var denomsABCD = []string{"aaa", "bbb", "ccc", "ddd"}

func genPool(r *rand.Rand, n int, oracle bool, fee math.LegacyDec) (ammtypes.Pool, []int64) {
	assets := []ammtypes.PoolAsset{}
	ws := []int64{}
	tw := int64(0)
	equal := r.Intn(2) == 0
	// 18-decimal assets: reserves far above 1e18 base units in a third of the pools. The all-asset
	// join / exit arithmetic rounds in a fixed direction, so its one-unit verdicts hold at any
	// magnitude; only the power-approximation paths are restricted to reserves <= 1e18 (see below).
	maxExp := 17.0
	if r.Intn(3) == 0 {
		maxExp = 29.0
	}
	for i := 0; i < n; i++ {
		w := int64(1)
		if !equal {
			w = int64(1 + r.Intn(16))
		}
		ws = append(ws, w)
		tw += w
		assets = append(assets, ammtypes.PoolAsset{Token: sdk.NewCoin(denomsABCD[i], math.NewIntFromBigInt(logUniform(r, maxExp))), Weight: math.NewInt(w), ExternalLiquidityRatio: math.LegacyOneDec()})
	}
	shares := new(big.Int).Mul(logUniform(r, 8), new(big.Int).Exp(big.NewInt(10), big.NewInt(int64(10+r.Intn(10))), nil))
	return ammtypes.Pool{PoolId: 1, PoolParams: ammtypes.PoolParams{UseOracle: oracle, SwapFee: fee}, TotalWeight: math.NewInt(tw), TotalShares: sdk.NewCoin("amm/pool/1", math.NewIntFromBigInt(shares)), PoolAssets: assets}, ws
}

func clonePool(p ammtypes.Pool) ammtypes.Pool {
	q := p
	q.PoolAssets = append([]ammtypes.PoolAsset{}, p.PoolAssets...)
	return q
}

func reserves(p ammtypes.Pool) []*big.Int {
	out := []*big.Int{}
	for _, a := range p.PoolAssets {
		out = append(out, bi(a.Token.Amount))
	}
	return out
}

// pure-shares: the real join / exit share arithmetic of x/amm/types on generated pools (C05).
func init() {
	run.Register("pure-shares", func(c *run.Ctx) {
		r := rand.New(rand.NewSource(c.Job.Sub(7)))
		st := statsOf(c, "C05")
		ps := &pureStats{c, st}
		ctx := pureCtx()
		params := ammtypes.DefaultParams()
		n := c.N(4000, 30000)
		one := big.NewInt(1)
		for i := 0; i < n; i++ {
			na := 2 + r.Intn(3)
			fee := math.LegacyNewDecWithPrec(int64(r.Intn(201)), 4)
			pool, ws := genPool(r, na, false, fee)
			S := bi(pool.TotalShares.Amount)
			B := reserves(pool)
			// ---- all-asset join: deposit sizes from dust to multiples of the pool
			tokens := sdk.NewCoins()
			for j, a := range pool.PoolAssets {
				x := new(big.Int).Mul(B[j], big.NewInt(int64(1+r.Intn(3000))))
				x.Div(x, big.NewInt(int64(1+r.Intn(100000))))
				if r.Intn(6) == 0 {
					x = big.NewInt(int64(1 + r.Intn(5)))
				}
				if x.Sign() == 0 {
					x = big.NewInt(1)
				}
				tokens = tokens.Add(sdk.NewCoin(a.Token.Denom, math.NewIntFromBigInt(x)))
			}
			pj := clonePool(pool)
			snap := clonePool(pool)
			var joined sdk.Coins
			var shares math.Int
			var err error
			if perr := safe(func() { joined, shares, _, _, err = pj.JoinPool(ctx, &snap, fakeOracle{}, fakeAcc{}, tokens, params) }); perr != nil {
				err = perr
				st.Ev("panic/" + mon.ErrClass(perr.Error()))
			}
			st.EvalCase(fmt.Sprintf("joinall|%v|%s|%s", B, S, tokens))
			if err != nil {
				st.Ev("join_all_rejected")
			} else {
				st.Ev("join_all")
				sh := bi(shares)
				for j, a := range pool.PoolAssets {
					used := bi(joined.AmountOf(a.Token.Denom))
					// (used+1)*S >= B*shares : shares are never worth more than the assets deposited
					if new(big.Int).Mul(new(big.Int).Add(used, one), S).Cmp(new(big.Int).Mul(B[j], sh)) < 0 {
						ps.viol("C05", "C05.join_shares_le_deposit", "join_all", fmt.Sprintf("reserves %v S=%s deposit %s: minted %s shares for only %s of %s (per-share reserve of the others drops)", B, S, tokens, shares, used, a.Token.Denom))
					}
					if used.Cmp(bi(tokens.AmountOf(a.Token.Denom))) > 0 {
						ps.viol("C05", "C05.join_uses_le_offered", "join_all", fmt.Sprintf("used %s > offered %s of %s", used, tokens.AmountOf(a.Token.Denom), a.Token.Denom))
					}
					if !pj.PoolAssets[j].Token.Amount.Equal(a.Token.Amount.Add(joined.AmountOf(a.Token.Denom))) {
						ps.viol("C05", "C05.book_updated_consistently", "join_all", fmt.Sprintf("reserve of %s after join %s != %s + %s", a.Token.Denom, pj.PoolAssets[j].Token.Amount, a.Token.Amount, used))
					}
				}
				if !pj.TotalShares.Amount.Equal(pool.TotalShares.Amount.Add(shares)) {
					ps.viol("C05", "C05.book_updated_consistently", "join_all", "total shares not increased by the minted amount")
				}
				// ---- join then exit everything just minted: nothing comes back beyond the deposit
				if shares.IsPositive() {
					pe := clonePool(pj)
					var outc sdk.Coins
					var e2 error
					if perr := safe(func() { outc, e2 = pe.ExitPool(ctx, fakeOracle{}, fakeAcc{}, shares, "", params) }); perr != nil {
						e2 = perr
					}
					if e2 == nil {
						st.Ev("join_all_then_exit_all")
						for _, a := range pool.PoolAssets {
							if outc.AmountOf(a.Token.Denom).GT(joined.AmountOf(a.Token.Denom).AddRaw(1)) {
								ps.viol("C05", "C05.join_exit_round_trip", "all_all", fmt.Sprintf("reserves %v S=%s: deposited %s got %s shares, exit returned %s (more %s than deposited)", B, S, joined, shares, outc, a.Token.Denom))
							}
						}
					}
				}
			}
			// ---- all-asset exit: requested share amounts from dust to nearly everything
			s := new(big.Int).Mul(S, big.NewInt(int64(1+r.Intn(9999))))
			s.Div(s, big.NewInt(int64(10000*(1+r.Intn(1000)))))
			switch r.Intn(8) {
			case 3: // a ratio that does not terminate in 18 decimals (k/3, k/7, k/9 of the supply)
				den := []int64{3, 7, 9, 11}[r.Intn(4)]
				s = new(big.Int).Div(new(big.Int).Mul(S, big.NewInt(1+int64(r.Intn(int(den-1))))), big.NewInt(den))
			case 0:
				s = new(big.Int).Sub(S, big.NewInt(int64(1+r.Intn(3))))
			case 1:
				s = big.NewInt(int64(1 + r.Intn(5)))
			case 2:
				s = new(big.Int).Set(S)
			}
			if s.Sign() <= 0 {
				s = big.NewInt(1)
			}
			pe := clonePool(pool)
			var outc sdk.Coins
			if perr := safe(func() { outc, err = pe.ExitPool(ctx, fakeOracle{}, fakeAcc{}, math.NewIntFromBigInt(s), "", params) }); perr != nil {
				err = perr
				st.Ev("panic/" + mon.ErrClass(perr.Error()))
			}
			st.EvalCase(fmt.Sprintf("exitall|%v|%s|%s", B, S, s))
			if err != nil {
				st.Ev("exit_all_rejected")
			} else {
				st.Ev("exit_all")
				for j, a := range pool.PoolAssets {
					o := bi(outc.AmountOf(a.Token.Denom))
					// (out-1)*S <= s*B
					if new(big.Int).Mul(new(big.Int).Sub(o, one), S).Cmp(new(big.Int).Mul(s, B[j])) > 0 {
						ps.viol("C05", "C05.exit_le_pro_rata", "exit_all", fmt.Sprintf("reserves %v S=%s: %s shares paid %s of %s, more than the pro-rata claim", B, S, s, o, a.Token.Denom))
					}
					left := pe.PoolAssets[j].Token.Amount
					if !left.IsPositive() {
						ps.viol("C05", "C05.exit_leaves_reserves_positive", "exit_all", fmt.Sprintf("reserves %v S=%s: exit of %s shares left reserve %s of %s", B, S, s, left, a.Token.Denom))
					}
					if !left.Equal(a.Token.Amount.Sub(outc.AmountOf(a.Token.Denom))) {
						ps.viol("C05", "C05.book_updated_consistently", "exit_all", fmt.Sprintf("reserves %v: exit paid %s of %s but the book went %s -> %s", B, o, a.Token.Denom, a.Token.Amount, left))
					}
				}
				if !pe.TotalShares.Amount.IsPositive() {
					ps.viol("C05", "C05.exit_leaves_shares_positive", "exit_all", fmt.Sprintf("S=%s: exit of %s shares left total shares %s", S, s, pe.TotalShares.Amount))
				}
			}
			// ---- single-asset join of a weighted pool: V/S (V = prod B_i^{w_i}) must not decrease
			big18 := false
			for _, b := range B {
				if b.BitLen() > 60 {
					big18 = true
				}
			}
			if big18 {
				continue // power-approximation path: verdicts only for reserves <= 1e18
			}
			j := r.Intn(na)
			x := new(big.Int).Mul(B[j], big.NewInt(int64(1+r.Intn(2000))))
			x.Div(x, big.NewInt(int64(1+r.Intn(100000))))
			if x.Sign() == 0 {
				x = big.NewInt(int64(1 + r.Intn(9)))
			}
			pj = clonePool(pool)
			snap = clonePool(pool)
			if perr := safe(func() {
				joined, shares, _, _, err = pj.JoinPool(ctx, &snap, fakeOracle{}, fakeAcc{}, sdk.NewCoins(sdk.NewCoin(denomsABCD[j], math.NewIntFromBigInt(x))), params)
			}); perr != nil {
				err = perr
				st.Ev("panic/" + mon.ErrClass(perr.Error()))
			}
			st.EvalCase(fmt.Sprintf("joinsingle|%v|%v|%s|%d|%s", B, ws, S, j, x))
			if err != nil {
				st.Ev("join_single_rejected")
			} else {
				st.Ev("join_single")
				after := reserves(pj)
				allow := make([]*big.Int, na)
				for k := range allow {
					allow[k] = big.NewInt(0)
				}
				// rounding: one base unit of the deposited asset; power approximation: the new share
				// supply S' = S * (1+x/B)^w is known to 1e-8 relative precision (the property's stated
				// allowance), so S' is lowered by S'/1e8 before comparing.
				allow[j] = big.NewInt(1)
				sAfter := bi(pj.TotalShares.Amount)
				sAdj := new(big.Int).Sub(sAfter, new(big.Int).Div(sAfter, big.NewInt(100_000_000)))
				sAdj.Sub(sAdj, big.NewInt(1))
				if !ref.ValueNotDecreased(B, after, ws, S, sAdj, allow) {
					ps.viol("C05", "C05.single_join_value_per_share", "join_single", fmt.Sprintf("reserves %v weights %v S=%s fee %s: single-asset join of %s %s minted %s shares; the per-share value prod(B^w)/S of the liquidity left behind decreased", B, ws, S, fee, x, denomsABCD[j], shares))
				}
				if i%1200 == 0 {
					st.Sample(map[string]interface{}{"case": "cp single-asset join", "reserves": fmt.Sprint(B), "weights": fmt.Sprint(ws), "total_shares": S.String(), "deposit": x.String() + denomsABCD[j], "shares_minted": shares.String()})
				}
			}
		}
		pureOracleShares(c, r, st, ps, n/2)
	})
}

// oracle pools: single-sided joins and single-denom exits valued at a fixed fake price table.
func pureOracleShares(c *run.Ctx, r *rand.Rand, st *mon.Stats, ps *pureStats, n int) {
	ctx := pureCtx()
	for i := 0; i < n; i++ {
		pa := chain.DecF(0.01 + r.Float64()*100).Quo(math.LegacyNewDec(1_000_000))
		pb := chain.DecF(0.01 + r.Float64()*100).Quo(math.LegacyNewDec(1_000_000))
		or := fakeOracle{p: map[string]math.LegacyDec{"aaa": pa, "bbb": pb}}
		ba := logUniform(r, 15)
		fa, _ := pa.Float64()
		fb, _ := pb.Float64()
		v := new(big.Float).Mul(new(big.Float).SetInt(ba), big.NewFloat(fa/fb*(0.2+r.Float64()*4)))
		bb, _ := v.Int(nil)
		if bb == nil || bb.Sign() <= 0 {
			bb = logUniform(r, 15)
		}
		params := ammtypes.DefaultParams()
		if r.Intn(3) == 0 {
			params.WeightBreakingFeeExponent, params.WeightBreakingFeeMultiplier = chain.DecF(r.Float64()*5), chain.DecF(r.Float64()*2)
			params.WeightBreakingFeePortion, params.ThresholdWeightDifference = chain.DecF(r.Float64()), chain.DecF(r.Float64()*0.5)
		}
		shares := new(big.Int).Mul(logUniform(r, 6), new(big.Int).Exp(big.NewInt(10), big.NewInt(int64(12+r.Intn(8))), nil))
		pool := ammtypes.Pool{PoolId: 1, PoolParams: ammtypes.PoolParams{UseOracle: true, SwapFee: math.LegacyNewDecWithPrec(2, 3)}, TotalWeight: math.NewInt(100), TotalShares: sdk.NewCoin("amm/pool/1", math.NewIntFromBigInt(shares)),
			PoolAssets: []ammtypes.PoolAsset{{Token: sdk.NewCoin("aaa", math.NewIntFromBigInt(ba)), Weight: math.NewInt(50), ExternalLiquidityRatio: math.LegacyOneDec()}, {Token: sdk.NewCoin("bbb", math.NewIntFromBigInt(bb)), Weight: math.NewInt(50), ExternalLiquidityRatio: math.LegacyOneDec()}}}
		price := map[string]*big.Int{"aaa": pa.BigInt(), "bbb": pb.BigInt()}
		tvl := func(p ammtypes.Pool) *big.Int {
			t := new(big.Int)
			for _, a := range p.PoolAssets {
				t.Add(t, new(big.Int).Mul(bi(a.Token.Amount), price[a.Token.Denom]))
			}
			return t
		}
		unit := new(big.Int).Add(price["aaa"], price["bbb"])
		// single-sided join
		d := []string{"aaa", "bbb"}[r.Intn(2)]
		base := ba
		if d == "bbb" {
			base = bb
		}
		x := new(big.Int).Mul(base, big.NewInt(int64(1+r.Intn(3000))))
		x.Div(x, big.NewInt(int64(1+r.Intn(100000))))
		if x.Sign() == 0 {
			x = big.NewInt(int64(1 + r.Intn(9)))
		}
		pj := clonePool(pool)
		snap := clonePool(pool)
		var got math.Int
		var err error
		if perr := safe(func() {
			_, got, _, _, err = pj.JoinPool(ctx, &snap, or, fakeAcc{}, sdk.NewCoins(sdk.NewCoin(d, math.NewIntFromBigInt(x))), params)
		}); perr != nil {
			err = perr
			st.Ev("panic/" + mon.ErrClass(perr.Error()))
		}
		st.EvalCase(fmt.Sprintf("ojoin|%s|%s|%s|%s|%s", ba, bb, shares, d, x))
		if err != nil {
			st.Ev("oracle_join_rejected")
		} else {
			st.Ev("oracle_join_single")
			// per-share TVL must not decrease: (tvl' + unit) * S >= tvl * S'
			t0, t1 := tvl(pool), tvl(pj)
			if new(big.Int).Mul(new(big.Int).Add(t1, unit), shares).Cmp(new(big.Int).Mul(t0, bi(pj.TotalShares.Amount))) < 0 {
				ps.viol("C05", "C05.oracle_join_value_per_share", "oracle_join", fmt.Sprintf("reserves %s/%s prices %s/%s S=%s: join of %s %s minted %s shares worth more than the deposit", ba, bb, pa, pb, shares, x, d, got))
			}
			// join then single-denom exit of the new shares, both denoms: value back <= value in (+1 unit each)
			for _, od := range []string{"aaa", "bbb", ""} {
				if !got.IsPositive() {
					break
				}
				pe := clonePool(pj)
				var outc sdk.Coins
				var e2 error
				if perr := safe(func() { outc, e2 = pe.ExitPool(ctx, or, fakeAcc{}, got, od, params) }); perr != nil {
					e2 = perr
				}
				if e2 != nil {
					continue
				}
				st.Ev("oracle_join_then_exit/" + od)
				vout := new(big.Int)
				for _, cn := range outc {
					vout.Add(vout, new(big.Int).Mul(bi(cn.Amount), price[cn.Denom]))
				}
				vin := new(big.Int).Mul(x, price[d])
				if vout.Cmp(new(big.Int).Add(vin, new(big.Int).Mul(unit, big.NewInt(2)))) > 0 {
					ps.viol("C05", "C05.join_exit_round_trip", "oracle/"+od, fmt.Sprintf("reserves %s/%s prices %s/%s S=%s: deposited %s %s, exit(%q) of the %s new shares returned %s - worth more than the deposit", ba, bb, pa, pb, shares, x, d, od, got, outc))
				}
				for j, a := range pe.PoolAssets {
					if !a.Token.Amount.IsPositive() {
						ps.viol("C05", "C05.exit_leaves_reserves_positive", "oracle_exit", fmt.Sprintf("exit left reserve %s of %s", a.Token.Amount, a.Token.Denom))
					}
					if !a.Token.Amount.Equal(pj.PoolAssets[j].Token.Amount.Sub(outc.AmountOf(a.Token.Denom))) {
						ps.viol("C05", "C05.book_updated_consistently", "oracle_exit", fmt.Sprintf("exit paid %s but book of %s went %s -> %s", outc, a.Token.Denom, pj.PoolAssets[j].Token.Amount, a.Token.Amount))
					}
				}
			}
		}
		// single-denom exit sized to hit (or approach) a whole reserve
		od := []string{"aaa", "bbb"}[r.Intn(2)]
		res := ba
		if od == "bbb" {
			res = bb
		}
		// shares whose value is about f * reserve of od
		f := []float64{0.1, 0.5, 0.9, 0.99, 1.0, 1.01}[r.Intn(6)]
		t0 := tvl(pool)
		tgt := new(big.Float).Mul(new(big.Float).SetInt(new(big.Int).Mul(res, price[od])), big.NewFloat(f))
		sf := new(big.Float).Quo(new(big.Float).Mul(tgt, new(big.Float).SetInt(shares)), new(big.Float).SetInt(t0))
		s, _ := sf.Int(nil)
		if s == nil || s.Sign() <= 0 {
			s = big.NewInt(1)
		}
		pe := clonePool(pool)
		var outc sdk.Coins
		if perr := safe(func() { outc, err = pe.ExitPool(ctx, or, fakeAcc{}, math.NewIntFromBigInt(s), od, params) }); perr != nil {
			err = perr
			st.Ev("panic/" + mon.ErrClass(perr.Error()))
		}
		st.EvalCase(fmt.Sprintf("oexit|%s|%s|%s|%s|%s", ba, bb, shares, od, s))
		if err != nil {
			st.Ev("oracle_exit_rejected")
			continue
		}
		st.Ev(fmt.Sprintf("oracle_exit_single/%.2f_of_reserve", f))
		// value paid <= pro-rata claim: out*p*S <= s*tvl + unit*S
		vout := new(big.Int).Mul(bi(outc.AmountOf(od)), price[od])
		if new(big.Int).Mul(vout, shares).Cmp(new(big.Int).Add(new(big.Int).Mul(s, t0), new(big.Int).Mul(unit, shares))) > 0 {
			ps.viol("C05", "C05.exit_le_pro_rata", "oracle_exit", fmt.Sprintf("reserves %s/%s prices %s/%s S=%s: %s shares paid %s, worth more than the pro-rata claim", ba, bb, pa, pb, shares, s, outc))
		}
		for j, a := range pe.PoolAssets {
			if !a.Token.Amount.IsPositive() {
				ps.viol("C05", "C05.exit_leaves_reserves_positive", "oracle_exit", fmt.Sprintf("reserves %s/%s S=%s: single-denom exit of %s shares paid %s and left reserve %s of %s", ba, bb, shares, s, outc, a.Token.Amount, a.Token.Denom))
			}
			if !a.Token.Amount.Equal(pool.PoolAssets[j].Token.Amount.Sub(outc.AmountOf(a.Token.Denom))) {
				ps.viol("C05", "C05.book_updated_consistently", "oracle_exit", fmt.Sprintf("reserves %s/%s S=%s: single-denom exit of %s shares paid %s but the book of %s went %s -> %s", ba, bb, shares, s, outc, a.Token.Denom, pool.PoolAssets[j].Token.Amount, a.Token.Amount))
			}
		}
		if i%900 == 0 {
			st.Sample(map[string]interface{}{"case": "oracle single-denom exit", "reserves": ba.String() + "/" + bb.String(), "prices": pa.String() + "/" + pb.String(), "total_shares": shares.String(), "shares_in": s.String(), "out": outc.String()})
		}
	}
}
