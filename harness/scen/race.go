package scen

import (
	"fmt"
	"os"
	"path/filepath"
	"sort"
	"strings"
	"sync"
	"sync/atomic"

	abci "github.com/cometbft/cometbft/abci/types"
	sdk "github.com/cosmos/cosmos-sdk/types"
	banktypes "github.com/cosmos/cosmos-sdk/x/bank/types"
	gogoproto "github.com/cosmos/gogoproto/proto"
	ammtypes "github.com/elys-network/elys/x/amm/types"
	commitmenttypes "github.com/elys-network/elys/x/commitment/types"
	mctypes "github.com/elys-network/elys/x/masterchef/types"
	perptypes "github.com/elys-network/elys/x/perpetual/types"
	tiertypes "github.com/elys-network/elys/x/tier/types"

	"cosmossdk.io/math"
	lptypes "github.com/elys-network/elys/x/leveragelp/types"
	sstypes "github.com/elys-network/elys/x/stablestake/types"
	tstypes "github.com/elys-network/elys/x/tradeshield/types"

	"verifharness/chain"
	"verifharness/run"
)

// race: the widest op mix driven through FinalizeBlock / Commit while goroutines issue CheckTx and
// gRPC Query calls concurrently under the reader/writer discipline of the SDK's committing ABCI
// client (Commit exclusive, everything else shared). Meant for the -race build: the scenario
// parses the race detector's log at the end; a report with a frame in the repository is a
// violation of C19 ("regardless of goroutine timing"), others are listed as outside the target.
func init() {
	run.Register("race", func(c *run.Ctx) {
		// no replicas here: the monitors are not attached as probes, only their stats are used
		v := NewVariant(c)
		w := chain.NewWorld(chain.Config{NUsers: 12, Inflation: 1e14, VestBlocks: 50, EdenClaimed: 3_000_000_000, EnableVestNow: true, PriceExpiry: 86400, LifeTimeBlock: 100000})
		c.World = w
		c.Worlds = append(c.Worlds, w)
		v.Prologue(w)
		var mu sync.RWMutex
		w.CommitMu = &mu
		g := v.Gen(w, c, MixWide)
		g.FeeProb, g.MaxTx = 0.4, 8
		spam := []*chain.Actor{chain.MkActor("user10"), chain.MkActor("user11")} // private copies: the driver refreshes w.Users concurrently
		spam[0].Num, spam[1].Num = w.Users[10].Num, w.Users[11].Num
		g.Actors = w.Users[:10]
		u3 := w.Users[3].S()
		q := func(path string, m gogoproto.Message) *abci.RequestQuery {
			var bz []byte
			if m != nil {
				bz, _ = gogoproto.Marshal(m)
			}
			return &abci.RequestQuery{Path: path, Data: bz}
		}
		queries := []*abci.RequestQuery{
			q("/elys.amm.Query/PoolAll", nil), q("/elys.amm.Query/DenomLiquidityAll", nil),
			q("/elys.amm.Query/SwapEstimationByDenom", &ammtypes.QuerySwapEstimationByDenomRequest{Amount: chain.Coin("uusdc", 1000000), DenomIn: "uusdc", DenomOut: "uatom", Address: u3}),
			q("/elys.perpetual.Query/GetPositions", nil), q("/elys.perpetual.Query/Pools", nil),
			q("/elys.perpetual.Query/OpenEstimation", &perptypes.QueryOpenEstimationRequest{Position: perptypes.Position_LONG, Leverage: chain.Dec("3"), TradingAsset: "uatom", Collateral: chain.Coin("uusdc", 1000000), TakeProfitPrice: chain.Dec("15"), PoolId: 1}),
			q("/elys.leveragelp.Query/QueryPositions", nil), q("/elys.leveragelp.Query/Pools", nil),
			q("/elys.masterchef.Query/PoolRewards", nil), q("/elys.masterchef.Query/UserPendingReward", &mctypes.QueryUserPendingRewardRequest{User: u3}), q("/elys.masterchef.Query/Aprs", nil),
			q("/elys.commitment.Query/ShowCommitments", &commitmenttypes.QueryShowCommitmentsRequest{Creator: u3}),
			q("/elys.oracle.Query/PriceAll", nil), q("/elys.stablestake.Query/BorrowRatio", nil),
			q("/elys.tier.Query/Portfolio", &tiertypes.QueryGetPortfolioRequest{User: u3}), q("/elys.tier.Query/CalculateDiscount", &tiertypes.QueryCalculateDiscountRequest{User: u3}),
			q("/elys.tradeshield.Query/PendingSpotOrderAll", nil), q("/elys.accountedpool.Query/AccountedPoolAll", nil),
			q("/cosmos.bank.v1beta1.Query/TotalSupply", nil),
		}
		// full message execution concurrent with block production: the transaction service's Simulate
		// runs the ante handler and every message handler of a signed transaction on a branch of the
		// check state, in the caller's goroutine, while FinalizeBlock executes handlers of the same
		// keepers (a keeper caching anything in a field or a package variable races here)
		sim := spam[1]
		sa := sim.S()
		simMsgs := []sdk.Msg{
			&ammtypes.MsgSwapExactAmountIn{Sender: sa, Routes: []ammtypes.SwapAmountInRoute{{PoolId: 1, TokenOutDenom: "uatom"}}, TokenIn: chain.Coin("uusdc", 25_000_000), TokenOutMinAmount: math.NewInt(1)},
			&ammtypes.MsgSwapExactAmountOut{Sender: sa, Routes: []ammtypes.SwapAmountOutRoute{{PoolId: 2, TokenInDenom: "uusdc"}}, TokenOut: chain.Coin("uelys", 3_000_000), TokenInMaxAmount: math.NewInt(1e13)},
			&ammtypes.MsgSwapByDenom{Sender: sa, Amount: chain.Coin("uatom", 1_000_000), MinAmount: chain.Coin("uusdc", 1), DenomIn: "uatom", DenomOut: "uusdc"},
			&ammtypes.MsgJoinPool{Sender: sa, PoolId: 2, MaxAmountsIn: sdk.NewCoins(chain.Coin("uusdc", 40_000_000)), ShareAmountOut: math.NewInt(1)},
			&ammtypes.MsgJoinPool{Sender: sa, PoolId: 1, MaxAmountsIn: sdk.NewCoins(chain.Coin("uatom", 5_000_000)), ShareAmountOut: math.NewInt(1)},
			&perptypes.MsgOpen{Creator: sa, Position: perptypes.Position_LONG, Leverage: chain.Dec("3"), TradingAsset: "uatom", Collateral: chain.Coin("uusdc", 50_000_000), TakeProfitPrice: chain.Dec("0"), StopLossPrice: chain.Dec("0"), PoolId: 1},
			&perptypes.MsgOpen{Creator: sa, Position: perptypes.Position_SHORT, Leverage: chain.Dec("2"), TradingAsset: "uatom", Collateral: chain.Coin("uusdc", 50_000_000), TakeProfitPrice: chain.Dec("0"), StopLossPrice: chain.Dec("0"), PoolId: 1},
			&lptypes.MsgOpen{Creator: sa, CollateralAsset: "uusdc", CollateralAmount: math.NewInt(30_000_000), AmmPoolId: 1, Leverage: chain.Dec("2"), StopLossPrice: chain.Dec("0")},
			&sstypes.MsgBond{Creator: sa, Amount: math.NewInt(10_000_000)},
			&mctypes.MsgClaimRewards{Sender: sa, PoolIds: []uint64{1, 2}},
			&commitmenttypes.MsgClaimVesting{Sender: sa},
			&tiertypes.MsgSetPortfolio{Creator: sa, User: u3},
			&tstypes.MsgCreateSpotOrder{OrderType: tstypes.SpotOrderType_LIMITBUY, OrderPrice: tstypes.OrderPrice{BaseDenom: "uusdc", QuoteDenom: "uatom", Rate: chain.Dec("0.1")}, OrderAmount: chain.Coin("uusdc", 1_000_000), OwnerAddress: sa, OrderTargetDenom: "uatom"},
			&banktypes.MsgSend{FromAddress: sa, ToAddress: u3, Amount: sdk.NewCoins(chain.Coin("uusdc", 1))},
		}
		simRaw := [][]byte{}
		for _, m := range simMsgs {
			if raw, err := chain.SignTx(w.App.TxConfig(), chain.ChainID, sim.Priv, sim.Num, 0, nil, m); err == nil {
				simRaw = append(simRaw, raw)
			}
		}
		var nCheck, nQuery, nQueryOK, nSim, nSimOK int64
		stop := make(chan struct{})
		var wg sync.WaitGroup
		for gi := 0; gi < 4; gi++ {
			wg.Add(1)
			go func(gi int) {
				defer wg.Done()
				i := 0
				for {
					select {
					case <-stop:
						return
					default:
					}
					i++
					mu.RLock()
					func() {
						defer func() { recover() }()
						if gi == 1 {
							_, _, err := w.App.Simulate(simRaw[i%len(simRaw)])
							atomic.AddInt64(&nSim, 1)
							if err == nil {
								atomic.AddInt64(&nSimOK, 1)
							}
						} else if gi == 0 {
							ac := spam[0]
							raw, err := chain.SignTx(w.App.TxConfig(), chain.ChainID, ac.Priv, ac.Num, uint64(i), nil, &banktypes.MsgSend{FromAddress: ac.S(), ToAddress: u3, Amount: sdk.NewCoins(chain.Coin("uusdc", 1))})
							if err == nil {
								w.App.CheckTx(&abci.RequestCheckTx{Tx: raw, Type: abci.CheckTxType_New})
								atomic.AddInt64(&nCheck, 1)
							}
						} else {
							rq := queries[(i*7+gi)%len(queries)]
							res, err := w.App.Query(nil, rq)
							atomic.AddInt64(&nQuery, 1)
							if err == nil && res != nil && res.Code == 0 {
								atomic.AddInt64(&nQueryOK, 1)
							}
						}
					}()
					mu.RUnlock()
				}
			}(gi)
		}
		n := c.N(60, 150)
		g.Free(n, func(i int) int64 {
			if i%29 == 28 {
				return 90000
			}
			return 5
		})
		close(stop)
		wg.Wait()
		c.EvN("concurrent_checktx", atomic.LoadInt64(&nCheck))
		c.EvN("concurrent_queries", atomic.LoadInt64(&nQuery))
		c.EvN("concurrent_queries_ok", atomic.LoadInt64(&nQueryOK))
		c.EvN("concurrent_simulate", atomic.LoadInt64(&nSim))
		c.EvN("concurrent_simulate_ok", atomic.LoadInt64(&nSimOK))
		if nSim > 0 && nSimOK == 0 {
			c.Inconclusive = "no concurrent Simulate call succeeded"
		}
		st := statsOf(c, "C19")
		st.EvalCase(fmt.Sprintf("race|%d|%d|%d", w.Height, nCheck, nQuery))
		st.EvalCase(fmt.Sprintf("race-blocks|%d", w.Height))
		// parse the race detector's reports
		logPrefix := os.Getenv("VERIF_RACE_LOG")
		if logPrefix == "" {
			c.Inconclusive = "race scenario run without the race-detector build (VERIF_RACE_LOG unset)"
			return
		}
		files, _ := filepath.Glob(logPrefix + ".*")
		reports := map[string]int{}
		target := map[string]bool{}
		for _, f := range files {
			b, _ := os.ReadFile(f)
			for _, blk := range strings.Split(string(b), "WARNING: DATA RACE")[1:] {
				// the two access stacks: the frames right below "Read at / Write at / Previous ... at"
				frames := []string{}
				inTarget := false
				lines := strings.Split(blk, "\n")
				for li, l := range lines {
					t := strings.TrimSpace(l)
					if !(strings.HasPrefix(t, "Read at") || strings.HasPrefix(t, "Write at") || strings.HasPrefix(t, "Previous read at") || strings.HasPrefix(t, "Previous write at")) {
						continue
					}
					k := 0
					for lj := li + 1; lj < len(lines) && k < 3; lj++ {
						f := strings.TrimSpace(lines[lj])
						if f == "" {
							break
						}
						if strings.HasPrefix(f, "/") { // file:line of the previous frame
							if (strings.Contains(f, "/repo/x/") || strings.Contains(f, "/repo/app/")) && k <= 3 {
								inTarget = true
							}
							continue
						}
						if i := strings.Index(f, "("); i > 0 {
							f = f[:i]
						}
						frames = append(frames, f)
						k++
					}
				}
				key := strings.Join(frames, " <- ")
				reports[key]++
				if inTarget {
					target[key] = true
				}
			}
		}
		keys := []string{}
		for k := range reports {
			keys = append(keys, k)
		}
		sort.Strings(keys)
		c.Extra["race_reports_distinct"] = len(keys)
		outside := []string{}
		for _, k := range keys {
			if target[k] {
				w.Report(chain.Violation{Property: "C19", Rule: "C19.no_data_race_in_target", Scope: sc("frames", k), Relation: "data_race", Detail: fmt.Sprintf("race detector: %d report(s) with frames %s", reports[k], k)})
			} else {
				outside = append(outside, fmt.Sprintf("x%d %s", reports[k], k))
			}
		}
		c.Extra["race_reports_outside_target"] = outside
		st.Sample(map[string]interface{}{"case": "race-detector build", "blocks": w.Height, "concurrent_checktx": nCheck, "concurrent_queries": nQuery, "queries_ok": nQueryOK, "concurrent_simulate": nSim, "simulate_ok": nSimOK, "distinct_race_reports": len(keys)})
	})
}
