package scen

import (
	"math/rand"

	sdk "github.com/cosmos/cosmos-sdk/types"
	ammtypes "github.com/elys-network/elys/x/amm/types"
	commitmenttypes "github.com/elys-network/elys/x/commitment/types"
	lptypes "github.com/elys-network/elys/x/leveragelp/types"
	mctypes "github.com/elys-network/elys/x/masterchef/types"
	oracletypes "github.com/elys-network/elys/x/oracle/types"
	parametertypes "github.com/elys-network/elys/x/parameter/types"
	perptypes "github.com/elys-network/elys/x/perpetual/types"
	sstypes "github.com/elys-network/elys/x/stablestake/types"

	"verifharness/chain"
	"verifharness/gen"
	"verifharness/run"
)

// Chaos interleaves the environment's and governance's moves with a free-running workload: every
// segment of traffic is followed by one PRNG-chosen disturbance - a price outage of some assets
// for a few blocks (prices are short-lived in these instances, so they really expire), a block-time
// gap, or a governance proposal that moves one module's parameters to other sane values (rates,
// safety factors, fees, portions, multipliers, schedule lengths, sweep sizes, blocks per year, a
// pool's own parameters). Invariants and ledgers are expected to hold through all of it.
type Chaos struct {
	C *run.Ctx
	W *chain.World
	G *gen.Gen
	R *rand.Rand
}

func NewChaos(c *run.Ctx, w *chain.World, g *gen.Gen) *Chaos {
	ch := &Chaos{C: c, W: w, G: g, R: rand.New(rand.NewSource(c.Job.Sub(77)))}
	op := w.App.OracleKeeper.GetParams(w.ReadCtx())
	op.PriceExpiryTime, op.LifeTimeInBlocks = 40, 8
	if w.GovExec("short-lived prices", &oracletypes.MsgUpdateParams{Authority: w.Gov, Params: op}) {
		c.Ev("chaos/prices_short_lived")
	}
	return ch
}

// Run n blocks of traffic in segments with a disturbance after each.
func (ch *Chaos) Run(n int, dt func(int) int64) {
	w, g := ch.W, ch.G
	done := 0
	for done < n && !w.Dead {
		seg := 8 + ch.R.Intn(18)
		if seg > n-done {
			seg = n - done
		}
		g.Free(seg, dt)
		done += seg
		if w.Dead || done >= n {
			break
		}
		ch.disturb()
	}
}

func pick[T any](r *rand.Rand, xs ...T) T { return xs[r.Intn(len(xs))] }

func (ch *Chaos) disturb() {
	w, g, r, c := ch.W, ch.G, ch.R, ch.C
	d := chain.Dec
	switch r.Intn(14) {
	case 0, 1, 2: // outage of a subset of the assets
		sil := map[string]bool{}
		for _, a := range []string{"ATOM", "USDC", "ELYS"} {
			if r.Intn(2) == 0 {
				sil[a] = true
			}
		}
		if len(sil) == 0 {
			sil["ATOM"] = true
		}
		w.Silent = sil
		g.Free(3+r.Intn(12), func(int) int64 { return 7 })
		w.Silent = map[string]bool{}
		c.Ev("chaos/outage")
	case 3: // a gap
		g.Free(1, func(int) int64 { return pick(r, int64(3700), 90000, 8*86400) })
		c.Ev("chaos/gap")
	case 4:
		p := w.App.PerpetualKeeper.GetParams(w.ReadCtx())
		p.BorrowInterestRateMax, p.BorrowInterestRateMin = d(pick(r, "0.5", "1", "3")), d(pick(r, "0.01", "0.1", "0.3"))
		p.FixedFundingRate = d(pick(r, "0.1", "0.5", "0.9"))
		p.SafetyFactor = d(pick(r, "1.01", "1.05", "1.1"))
		if w.GovExec("chaos perpetual", &perptypes.MsgUpdateParams{Authority: w.Gov, Params: &p}) {
			c.Ev("chaos/params/perpetual")
		}
	case 5:
		p := w.App.LeveragelpKeeper.GetParams(w.ReadCtx())
		p.SafetyFactor = d(pick(r, "1.05", "1.1", "1.2"))
		p.NumberPerBlock = int64(pick(r, 1, 3, 1000))
		p.EpochLength = int64(pick(r, 1, 5, 23))
		if w.GovExec("chaos leveragelp", &lptypes.MsgUpdateParams{Authority: w.Gov, Params: &p}) {
			c.Ev("chaos/params/leveragelp")
		}
	case 6:
		p := w.App.StablestakeKeeper.GetParams(w.ReadCtx())
		p.InterestRateMax, p.InterestRateMin, p.InterestRate = d(pick(r, "0.3", "0.9")), d(pick(r, "0.05", "0.2")), d(pick(r, "0.2", "0.25"))
		p.InterestRateIncrease, p.InterestRateDecrease = d(pick(r, "0.01", "0.05")), d(pick(r, "0.01", "0.05"))
		p.MaxLeverageRatio = d(pick(r, "0.7", "0.8", "0.95"))
		p.EpochLength = pick(r, int64(1), 2, 5, 17)
		if w.GovExec("chaos stablestake", &sstypes.MsgUpdateParams{Authority: w.Gov, Params: &p}) {
			c.Ev("chaos/params/stablestake")
		}
	case 7:
		p := w.App.AmmKeeper.GetParams(w.ReadCtx())
		p.WeightBreakingFeeMultiplier, p.WeightBreakingFeeExponent = d(pick(r, "0.0005", "0.001", "0.01")), d(pick(r, "2.5", "1", "4"))
		p.WeightBreakingFeePortion, p.ThresholdWeightDifference = d(pick(r, "0.5", "0.1", "0.9")), d(pick(r, "0.3", "0.1", "0.5"))
		if w.GovExec("chaos amm", &ammtypes.MsgUpdateParams{Authority: w.Gov, Params: &p}) {
			c.Ev("chaos/params/amm")
		}
	case 8: // a pool's own parameters
		pools := w.App.AmmKeeper.GetAllPool(w.ReadCtx())
		p := pools[r.Intn(len(pools))]
		pp := p.PoolParams
		pp.SwapFee = d(pick(r, "0", "0.001", "0.003", "0.01"))
		if w.GovExec("chaos pool params", &ammtypes.MsgUpdatePoolParams{Authority: w.Gov, PoolId: p.PoolId, PoolParams: pp}) {
			c.Ev("chaos/params/pool")
		}
	case 9:
		p := w.App.MasterchefKeeper.GetParams(w.ReadCtx())
		lp := pick(r, "0.6", "0.3", "0.75")
		p.RewardPortionForLps, p.RewardPortionForStakers = d(lp), d(pick(r, "0.25", "0.1", "0.2"))
		msgs := []sdk.Msg{&mctypes.MsgUpdateParams{Authority: w.Gov, Params: p},
			&mctypes.MsgUpdatePoolMultipliers{Authority: w.Gov, PoolMultipliers: []mctypes.PoolMultiplier{{PoolId: 1, Multiplier: d(pick(r, "1", "2", "0.5"))}, {PoolId: 2, Multiplier: d(pick(r, "1", "0", "3"))}}}}
		if w.GovExec("chaos masterchef", msgs...) {
			c.Ev("chaos/params/masterchef")
		}
	case 10:
		nb := pick(r, int64(20), 60, 200)
		if w.GovExec("chaos vesting", &commitmenttypes.MsgUpdateVestingInfo{Authority: w.Gov, BaseDenom: "ueden", VestingDenom: "uelys", NumBlocks: nb, VestNowFactor: pick(r, int64(3), 90), NumMaxVestings: pick(r, int64(4), 8)}) {
			c.Ev("chaos/params/vesting")
		}
	case 11:
		if w.GovExec("chaos blocks per year", &parametertypes.MsgUpdateTotalBlocksPerYear{Creator: w.Gov, TotalBlocksPerYear: pick(r, uint64(6307200), 3153600, 12614400, 525600)}) {
			c.Ev("chaos/params/blocks_per_year")
		}
	case 12:
		op := w.App.OracleKeeper.GetParams(w.ReadCtx())
		op.PriceExpiryTime, op.LifeTimeInBlocks = pick(r, uint64(40), 20, 120), pick(r, uint64(8), 4, 30)
		if w.GovExec("chaos oracle", &oracletypes.MsgUpdateParams{Authority: w.Gov, Params: op}) {
			c.Ev("chaos/params/oracle")
		}
	case 13:
		p := w.App.PerpetualKeeper.GetParams(w.ReadCtx())
		p.LeverageMax = d(pick(r, "10", "5", "25"))
		p.PerpetualSwapFee = d(pick(r, "0.001", "0", "0.005"))
		p.EnableTakeProfitCustodyLiabilities = !p.EnableTakeProfitCustodyLiabilities
		if w.GovExec("chaos perpetual 2", &perptypes.MsgUpdateParams{Authority: w.Gov, Params: &p}) {
			c.Ev("chaos/params/perpetual2")
		}
	}
}
