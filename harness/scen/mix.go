package scen

import (
	sdk "github.com/cosmos/cosmos-sdk/types"
	ammtypes "github.com/elys-network/elys/x/amm/types"
	perptypes "github.com/elys-network/elys/x/perpetual/types"

	"verifharness/chain"
	"verifharness/gen"
	"verifharness/run"
)

// mix: prologue + free mixed traffic over every DeFi module (the random-history workload), with
// one directed phase in the middle: positions holding a large custody relative to the pool's
// reserve, then every liquidity provider tries to leave with 90 % of its shares.
func init() {
	run.Register("mix", func(c *run.Ctx) {
		v := NewVariant(c)
		w := v.World(c, true, 12)
		v.Prologue(w)
		burnerOn(c, w)
		g := v.Gen(w, c, MixAll)
		g.FeeProb = 0.2
		n := c.N(200, 600)
		// every third instance runs under chaos: outages, gaps and governance parameter moves between
		// the segments of traffic (see chaos.go)
		var ch *Chaos
		if c.Job.Index%3 == 1 {
			ch = NewChaos(c, w, g)
		}
		free := func(k int) {
			if ch != nil {
				ch.Run(k, g.StdDt)
			} else {
				g.Free(k, g.StdDt)
			}
		}
		free(n / 2)
		exitAgainstCustody(c, w)
		// governance rewrites pool parameters in mid-history: the constant-product pool 3 becomes an
		// oracle pool for a while and goes back, pool 2 gets another swap fee
		if v.Pool3 && !w.Dead {
			if p3, ok := w.App.AmmKeeper.GetPool(w.ReadCtx(), 3); ok {
				pp := p3.PoolParams
				pp.UseOracle = true
				if w.GovExec("pool 3 -> oracle", &ammtypes.MsgUpdatePoolParams{Authority: w.Gov, PoolId: 3, PoolParams: pp}) {
					c.Ev("pool_switched_to_oracle_mode")
				}
				g.Free(12, g.StdDt)
				pp.UseOracle = false
				p2, _ := w.App.AmmKeeper.GetPool(w.ReadCtx(), 2)
				q := p2.PoolParams
				q.SwapFee = chain.Dec("0.0042")
				if w.GovExec("pool 3 -> constant product", &ammtypes.MsgUpdatePoolParams{Authority: w.Gov, PoolId: 3, PoolParams: pp}, &ammtypes.MsgUpdatePoolParams{Authority: w.Gov, PoolId: 2, PoolParams: q}) {
					c.Ev("pool_switched_back_to_constant_product")
				}
			}
		}
		takeProfitSwitch(c, w, g)
		free(n - n/2)
	})
}

// takeProfitSwitch: governance switches the perpetual module's take-profit accounting on and, a few
// blocks of traffic later, off again (every derived record that carried the take-profit terms has
// to drop them in the block of the switch, not at the next perpetual operation on its pool).
func takeProfitSwitch(c *run.Ctx, w *chain.World, g *gen.Gen) {
	for _, on := range []bool{true, false} {
		if w.Dead {
			return
		}
		p := w.App.PerpetualKeeper.GetParams(w.ReadCtx())
		if p.EnableTakeProfitCustodyLiabilities == on {
			continue
		}
		p.EnableTakeProfitCustodyLiabilities = on
		if w.GovExec("take-profit accounting", &perptypes.MsgUpdateParams{Authority: w.Gov, Params: &p}) {
			c.Ev(map[bool]string{true: "take_profit_accounting_switched_on", false: "take_profit_accounting_switched_off"}[on])
		}
		// liquidity-pool traffic only: nothing refreshes the derived records on the way
		w.Step(5)
		w.Step(5)
		g.Free(3, nil)
	}
}

// exitAgainstCustody: low-leverage longs (tiny liabilities, so the pool health stays high) with
// custody worth 10-25 % of the trading-asset reserve each, a gap beyond the liquidity lock, then
// exits of 90 % by every share holder of the pool, one per block.
func exitAgainstCustody(c *run.Ctx, w *chain.World) {
	if w.Dead {
		return
	}
	ctx := w.ReadCtx()
	pool, ok := w.App.AmmKeeper.GetPool(ctx, 1)
	if !ok {
		return
	}
	var reserve int64
	for _, a := range pool.PoolAssets {
		if a.Token.Denom == "uatom" {
			reserve = a.Token.Amount.Int64()
		}
	}
	atom := w.Prices["ATOM"]
	txs := []*chain.TxRecord{}
	for i, a := range w.Users[8:11] {
		col := reserve / int64(8-2*i)
		txs = append(txs, w.Tx(a, &perptypes.MsgOpen{Creator: a.S(), Position: perptypes.Position_LONG, Leverage: chain.Dec("1.1"), TradingAsset: "uatom", Collateral: chain.Coin("uatom", col), TakeProfitPrice: atom.MulInt64(4), StopLossPrice: chain.Dec("0"), PoolId: 1}))
	}
	b := w.Step(5, txs...)
	if w.Dead {
		return
	}
	for _, t := range b.Txs[1:] {
		if t.OK() {
			c.Ev("large_custody_position_opened")
		}
	}
	w.Step(4000)
	// single-denom exits of a tenth each (oracle pools price them at the pool's TVL, which has to
	// leave the traders' custody out), then the 90 % exits
	k := 0
	for _, a := range w.Users {
		if w.Dead || k >= 4 {
			break
		}
		cm := w.App.CommitmentKeeper.GetCommitments(w.ReadCtx(), a.Addr)
		have := cm.GetCommittedAmountForDenom(ammtypes.GetPoolShareDenom(1))
		if !have.IsPositive() {
			continue
		}
		b := w.Step(5, w.Tx(a, &ammtypes.MsgExitPool{Sender: a.S(), PoolId: 1, ShareAmountIn: have.QuoRaw(10), TokenOutDenom: []string{"uusdc", "uatom"}[k%2], MinAmountsOut: sdk.NewCoins()}))
		k++
		if !w.Dead && b.Txs[1].OK() {
			c.Ev("single_denom_exit_with_large_custody_accepted")
		} else {
			c.Ev("single_denom_exit_with_large_custody_refused")
		}
	}
	for _, a := range w.Users {
		if w.Dead {
			return
		}
		cm := w.App.CommitmentKeeper.GetCommitments(w.ReadCtx(), a.Addr)
		have := cm.GetCommittedAmountForDenom(ammtypes.GetPoolShareDenom(1))
		if !have.IsPositive() {
			continue
		}
		b := w.Step(5, w.Tx(a, &ammtypes.MsgExitPool{Sender: a.S(), PoolId: 1, ShareAmountIn: have.MulRaw(9).QuoRaw(10), MinAmountsOut: sdk.NewCoins()}))
		if !w.Dead && b.Txs[1].OK() {
			c.Ev("exit_against_custody_accepted")
		} else {
			c.Ev("exit_against_custody_refused")
		}
	}
}
