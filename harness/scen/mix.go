package scen

import (
	"verifharness/run"
)

// mix: prologue + free mixed traffic over every DeFi module (the random-history workload).
func init() {
	run.Register("mix", func(c *run.Ctx) {
		v := NewVariant(c)
		w := v.World(c, true, 12)
		v.Prologue(w)
		g := v.Gen(w, c, MixAll)
		g.FeeProb = 0.2
		g.Free(c.N(200, 600), g.StdDt)
	})
}
