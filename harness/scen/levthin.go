package scen

import (
	"cosmossdk.io/math"
	sdk "github.com/cosmos/cosmos-sdk/types"
	ammtypes "github.com/elys-network/elys/x/amm/types"
	lptypes "github.com/elys-network/elys/x/leveragelp/types"

	"verifharness/chain"
	"verifharness/gen"
	"verifharness/run"
)

// lev-thin: a leveraged market whose unleveraged stable side is thin. Anybody may create an oracle
// pool with unequal sides; governance enables leverage on it; a few leveraged positions, each larger
// than the pool's own stable side, are opened; the volatile asset crashes, the positions become
// liquidatable and third parties (and the begin-block sweep) go after them while the pool's
// stable-coin reserve check, the perpetual pool-health check and the accounted pool all have
// something to say about every exit. Ordinary liquidity providers then leave in every exit form
// (single-asset in either denom, all-asset), join again, traders swap. This is the situation where
// forced exits, hooks that refuse and ordinary exits meet on one pool.
func init() {
	run.Register("lev-thin", func(c *run.Ctx) {
		v := NewVariant(c)
		w := v.World(c, true, 12)
		S := v.Scale
		w.Prologue(chain.PrologueCfg{Scale: S, Pool3: v.Pool3, W2A: v.W2A, W2B: v.W2B, Fee1: v.Fee1, Fee2: v.Fee2, Bond: S * 8})
		v.Sweep(w)
		if w.Dead {
			return
		}
		u := w.Users
		thin := []int64{30, 50, 20, 80}[c.Job.Index%4] // stable side in % of the volatile side's value
		lev := []int64{6, 5, 8, 4}[(c.Job.Index/2)%4]
		drop := []int64{60, 65, 55, 70}[(c.Job.Index/3)%4] // new price in % of the old one
		atomAmt := math.LegacyNewDec(S).Quo(w.Prices["ATOM"]).TruncateInt()
		b := w.Step(5, w.Tx(u[0], w.CreatePoolMsg(u[0], chain.PoolSpec{Oracle: true, Fee: v.Fee1, A: chain.CoinI("uatom", atomAmt), B: chain.Coin("uusdc", S*thin/100), WA: 50, WB: 50})))
		if w.Dead || !b.Txs[1].OK() {
			c.Ev("thin_pool_not_created")
			return
		}
		pid := uint64(0)
		for _, p := range w.App.AmmKeeper.GetAllPool(w.ReadCtx()) {
			if p.PoolId > pid {
				pid = p.PoolId
			}
		}
		if !w.GovExec("leverage on the thin pool", &lptypes.MsgAddPool{Authority: w.Gov, Pool: lptypes.AddPool{AmmPoolId: pid, LeverageMax: math.LegacyNewDec(10)}}) {
			c.Ev("thin_pool_not_enabled")
			return
		}
		c.Ev("thin_pool_enabled")
		// every other instance: the market is disabled again while it is empty and enabled once more
		// (leveragelp, perpetual and accounted pool records are removed and created afresh)
		if c.Job.Index%2 == 1 {
			if w.GovExec("leverage off the thin pool", &lptypes.MsgRemovePool{Authority: w.Gov, Id: pid}) {
				c.Ev("empty_market_removed")
			}
			if !w.GovExec("leverage on the thin pool again", &lptypes.MsgAddPool{Authority: w.Gov, Pool: lptypes.AddPool{AmmPoolId: pid, LeverageMax: math.LegacyNewDec(10)}}) {
				c.Ev("thin_pool_not_enabled_again")
				return
			}
			c.Ev("market_enabled_again")
		}
		// a second ordinary provider, so that there are two unleveraged owners
		w.Step(5, w.Tx(u[1], &ammtypes.MsgJoinPool{Sender: u[1].S(), PoolId: pid, MaxAmountsIn: sdk.NewCoins(chain.Coin("uusdc", S/20)), ShareAmountOut: math.NewInt(1)}))
		nPos := 2 + c.Job.Index%3
		for i := 0; i < nPos && !w.Dead; i++ {
			o := u[3+i]
			b := w.Step(5, w.Tx(o, &lptypes.MsgOpen{Creator: o.S(), CollateralAsset: "uusdc", CollateralAmount: math.NewInt(S / lev * int64(10+i) / 10), AmmPoolId: pid, Leverage: math.LegacyNewDec(lev), StopLossPrice: math.LegacyZeroDec()}))
			if !w.Dead && b.Txs[1].OK() {
				c.Ev("large_leveraged_position_opened")
			} else {
				c.Ev("large_leveraged_position_refused")
			}
		}
		// every fourth instance: a late provider tops the stable side up, so that forced closes pass the
		// stable-reserve hook and the exits behind them follow real liquidations
		if c.Job.Index%4 == 3 && !w.Dead {
			w.Step(5, w.Tx(u[2], &ammtypes.MsgJoinPool{Sender: u[2].S(), PoolId: pid, MaxAmountsIn: sdk.NewCoins(chain.Coin("uusdc", S*3)), ShareAmountOut: math.NewInt(1)}))
			c.Ev("stable_side_topped_up")
		}
		// lock-ups expire
		w.Step(2*3600 + 5)
		w.Step(5)
		old := w.Prices["ATOM"]
		w.Prices["ATOM"] = old.MulInt64(drop).QuoInt64(100)
		c.Ev("volatile_asset_crashed")
		exitForms := func(round int) {
			for k, who := range []*chain.Actor{u[0], u[1]} {
				cm := w.App.CommitmentKeeper.GetCommitments(w.ReadCtx(), who.Addr)
				have := cm.GetCommittedAmountForDenom(ammtypes.GetPoolShareDenom(pid))
				if !have.IsPositive() {
					continue
				}
				out := []string{"uusdc", "uatom", ""}[(round+k)%3]
				b := w.Step(5, w.Tx(who, &ammtypes.MsgExitPool{Sender: who.S(), PoolId: pid, ShareAmountIn: have.QuoRaw(int64(10 + 3*round)), TokenOutDenom: out, MinAmountsOut: sdk.NewCoins()}))
				if w.Dead {
					return
				}
				if b.Txs[1].OK() {
					c.Ev("ordinary_exit_after_forced_close_paid/" + map[string]string{"uusdc": "stable", "uatom": "volatile", "": "all"}[out])
				} else {
					c.Ev("ordinary_exit_after_forced_close_refused")
				}
			}
		}
		// the crash block itself carries nothing else; then third parties name every position, one
		// request per block, and ordinary providers exit right behind each of them
		w.Step(5)
		for round := 0; round < nPos+1 && !w.Dead; round++ {
			req := []*lptypes.PositionRequest{}
			for _, p := range w.App.LeveragelpKeeper.GetAllPositions(w.ReadCtx()) {
				if p.AmmPoolId == pid && len(req) <= round {
					req = append(req, &lptypes.PositionRequest{Address: p.Address, Id: p.Id})
				}
			}
			if len(req) > 0 {
				n0 := len(w.App.LeveragelpKeeper.GetAllPositions(w.ReadCtx()))
				w.Step(5, w.Tx(u[9], &lptypes.MsgClosePositions{Creator: u[9].S(), Liquidate: req}))
				if w.Dead {
					return
				}
				if n1 := len(w.App.LeveragelpKeeper.GetAllPositions(w.ReadCtx())); n1 < n0 {
					c.Ev("position_force_closed_on_thin_pool")
				} else {
					c.Ev("forced_close_request_left_positions")
				}
			}
			exitForms(round)
		}
		// traffic on the whole chain, the thin pool included through joins / exits / swaps by id
		g := v.Gen(w, c, MixAll)
		g.Free(30, g.StdDt)
		w.Prices["ATOM"] = old
		exitForms(1)
		g.Free(20, g.StdDt)
		// governance tries to disable the market while positions may still be open on it
		if !w.Dead {
			if w.GovExec("leverage off the used thin pool", &lptypes.MsgRemovePool{Authority: w.Gov, Id: pid}) {
				c.Ev("used_market_removed")
			} else {
				c.Ev("used_market_removal_refused")
			}
			g.Free(10, g.StdDt)
		}
		_ = gen.Mix{}
	})
}
