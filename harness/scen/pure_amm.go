package scen

import (
	"fmt"
	"math/big"
	"math/rand"

	"cosmossdk.io/log"
	"cosmossdk.io/math"
	storetypes "cosmossdk.io/store/types"
	cmtproto "github.com/cometbft/cometbft/proto/tendermint/types"
	sdk "github.com/cosmos/cosmos-sdk/types"
	ammtypes "github.com/elys-network/elys/x/amm/types"
	oracletypes "github.com/elys-network/elys/x/oracle/types"

	"verifharness/chain"
	"verifharness/mon"
	"verifharness/ref"
	"verifharness/run"
)

// fake keeper interfaces: an oracle price table and an accounted-balance table (the only mocks
// in the whole framework; x/amm/types pool methods take these two interfaces as arguments).
type fakeOracle struct{ p map[string]math.LegacyDec }

func (f fakeOracle) GetAssetPrice(ctx sdk.Context, asset string) (oracletypes.Price, bool) {
	return oracletypes.Price{}, false
}
func (f fakeOracle) GetAssetPriceFromDenom(ctx sdk.Context, denom string) math.LegacyDec {
	if v, ok := f.p[denom]; ok {
		return v
	}
	return math.LegacyZeroDec()
}
func (f fakeOracle) GetPriceFeeder(ctx sdk.Context, feeder sdk.AccAddress) (oracletypes.PriceFeeder, bool) {
	return oracletypes.PriceFeeder{}, false
}

type fakeAcc struct{ b map[string]math.Int }

func (f fakeAcc) GetAccountedBalance(_ sdk.Context, _ uint64, denom string) math.Int {
	if v, ok := f.b[denom]; ok {
		return v
	}
	return math.ZeroInt()
}

func pureCtx() sdk.Context {
	return sdk.NewContext(nil, cmtproto.Header{}, false, log.NewNopLogger()).WithGasMeter(storetypes.NewInfiniteGasMeter())
}

func logUniform(r *rand.Rand, maxExp float64) *big.Int {
	e := r.Float64() * maxExp
	f := new(big.Float).SetFloat64(1 + r.Float64()*9)
	for i := 0; i < int(e); i++ {
		f.Mul(f, big.NewFloat(10))
	}
	x, _ := f.Int(nil)
	if x.Sign() == 0 {
		x = big.NewInt(1)
	}
	return x
}

func bi(x math.Int) *big.Int { return x.BigInt() }

type pureStats struct {
	c  *run.Ctx
	st *mon.Stats
}

func (p *pureStats) viol(prop, rule, kind, detail string) {
	p.c.ExtraViol = append(p.c.ExtraViol, chain.Violation{Property: prop, Rule: rule, Scope: sc("kind", kind), Relation: kind, Detail: detail})
}

func statsOf(c *run.Ctx, prop string) *mon.Stats {
	for _, m := range c.Mons {
		if m.Stats().Prop == prop {
			return m.Stats()
		}
	}
	return mon.NewStats(prop)
}

// cpPool builds a two-asset constant-product pool.
func cpPool(bin, bout *big.Int, wi, wo int64, fee math.LegacyDec) ammtypes.Pool {
	return ammtypes.Pool{PoolId: 1, PoolParams: ammtypes.PoolParams{UseOracle: false, SwapFee: fee}, TotalWeight: math.NewInt(wi + wo), TotalShares: sdk.NewCoin("amm/pool/1", math.NewIntWithDecimal(1, 20)),
		PoolAssets: []ammtypes.PoolAsset{{Token: sdk.NewCoin("aaa", math.NewIntFromBigInt(bin)), Weight: math.NewInt(wi), ExternalLiquidityRatio: math.LegacyOneDec()}, {Token: sdk.NewCoin("bbb", math.NewIntFromBigInt(bout)), Weight: math.NewInt(wo), ExternalLiquidityRatio: math.LegacyOneDec()}}}
}

func allowance(wi, wo int64, reserve *big.Int) *big.Int {
	if wi == wo {
		return big.NewInt(1)
	}
	a := new(big.Int).Div(reserve, big.NewInt(100_000_000))
	return a.Add(a, big.NewInt(1))
}

func safe(f func()) (err error) {
	defer func() {
		if r := recover(); r != nil {
			err = fmt.Errorf("panic: %v", r)
		}
	}()
	f()
	return nil
}

// pure-amm: the real pricing functions of x/amm/types on generated pools against the exact
// weighted-product inequality (C03).
func init() {
	run.Register("pure-amm", func(c *run.Ctx) {
		r := rand.New(rand.NewSource(c.Job.Sub(3)))
		st := statsOf(c, "C03")
		ps := &pureStats{c, st}
		ctx := pureCtx()
		params := ammtypes.DefaultParams()
		n := c.N(5000, 40000)
		maxExp := 17.0
		for i := 0; i < n; i++ {
			wi, wo := int64(1), int64(1)
			if r.Intn(2) == 0 {
				wi, wo = int64(1+r.Intn(64)), int64(1+r.Intn(64))
				if r.Intn(3) == 0 {
					wi, wo = int64(1+r.Intn(8)), int64(1+r.Intn(8))
				}
			}
			bin, bout := logUniform(r, maxExp), logUniform(r, maxExp)
			// trade size from 1 unit up to nearly the whole reserve (and beyond, which must fail or pay < reserve)
			a := new(big.Int).Mul(bin, big.NewInt(int64(1+r.Intn(1000))))
			a.Div(a, big.NewInt(int64(1+r.Intn(100000))))
			switch r.Intn(8) {
			case 0:
				a = big.NewInt(int64(1 + r.Intn(10)))
			case 1:
				a = new(big.Int).Mul(bin, big.NewInt(int64(1+r.Intn(50))))
			}
			if a.Sign() == 0 {
				a = big.NewInt(1)
			}
			// The property quantifies over trade sizes "from 1 base unit up to nearly the whole
			// reserve": inputs larger than the input reserve are still executed (panics there feed
			// C18) but are outside the verdict and only counted.
			beyond := a.Cmp(bin) > 0
			// fee in [0, 2%] x discount in [0,1]
			fee := math.LegacyNewDecWithPrec(int64(r.Intn(201)), 4)
			if r.Intn(3) == 0 {
				fee = ammtypes.ApplyDiscount(fee, math.LegacyNewDecWithPrec(int64(r.Intn(101)), 2))
			}
			feeRaw := fee.BigInt()
			kind := "equal"
			if wi != wo {
				kind = "unequal"
			}
			// ---- exact-in
			pool := cpPool(bin, bout, wi, wo, fee)
			snap := pool
			var out sdk.Coin
			var err error
			if perr := safe(func() {
				out, _, _, _, _, err = pool.SwapOutAmtGivenIn(ctx, fakeOracle{}, &snap, sdk.Coins{sdk.NewCoin("aaa", math.NewIntFromBigInt(a))}, "bbb", fee, fakeAcc{}, math.LegacyOneDec(), params)
			}); perr != nil {
				err = perr
				st.Ev("panic_in_pricing_code")
				st.Ev("panic/" + mon.ErrClass(perr.Error()))
			}
			st.EvalCase(fmt.Sprintf("in|%s|%s|%s|%d|%d|%s", bin, bout, a, wi, wo, fee))
			if err != nil {
				st.Ev("exact_in_rejected")
			} else if beyond {
				st.Ev("exact_in_beyond_reserve_not_judged")
				if out.Amount.BigInt().Cmp(bout) >= 0 {
					st.Ev("exact_in_beyond_reserve_pays_whole_reserve")
				}
			} else {
				st.Ev("exact_in/" + kind)
				al := allowance(wi, wo, bout)
				if !ref.OutWithinExact(bin, bout, a, bi(out.Amount), wi, wo, feeRaw, al) {
					need := ref.MinAllowance(bout, func(x *big.Int) bool { return ref.OutWithinExact(bin, bout, a, bi(out.Amount), wi, wo, feeRaw, x) })
					ps.viol("C03", "C03.cp_out_le_exact", "exact_in/"+kind, fmt.Sprintf("Bin=%s Bout=%s w=%d:%d fee=%s in=%s: out=%s exceeds the exact weighted-product value by %s units (allowance %s)", bin, bout, wi, wo, fee, a, out.Amount, need, al))
				}
				if out.Amount.BigInt().Cmp(bout) > 0 {
					ps.viol("C03", "C03.cp_out_lt_reserve", "exact_in/"+kind, fmt.Sprintf("Bin=%s Bout=%s in=%s: out=%s > reserve", bin, bout, a, out.Amount))
				} else if out.Amount.BigInt().Cmp(bout) == 0 {
					// the exact value is always below the reserve; with a reserve of a few units the
					// one-unit rounding allowance of the property reaches it (judged by cp_out_le_exact)
					st.Ev("exact_in_pays_whole_tiny_reserve_within_rounding")
				}
				if i%1500 == 0 {
					st.Sample(map[string]interface{}{"case": "cp exact-in", "Bin": bin.String(), "Bout": bout.String(), "weights": fmt.Sprintf("%d:%d", wi, wo), "fee": fee.String(), "in": a.String(), "out": out.Amount.String(), "allowance": al.String()})
				}
				// ---- round trip A->B->A on the updated reserves (the fee stays in the pool: an upper bound on what comes back)
				if out.Amount.IsPositive() {
					b2in := new(big.Int).Sub(bout, bi(out.Amount))
					b2out := new(big.Int).Add(bin, a)
					p2 := cpPool(b2out, b2in, wi, wo, fee)
					s2 := p2
					var back sdk.Coin
					var err2 error
					if perr := safe(func() {
						back, _, _, _, _, err2 = p2.SwapOutAmtGivenIn(ctx, fakeOracle{}, &s2, sdk.Coins{sdk.NewCoin("bbb", out.Amount)}, "aaa", fee, fakeAcc{}, math.LegacyOneDec(), params)
					}); perr != nil {
						err2 = perr
					}
					if err2 == nil {
						st.Ev("round_trip")
						lim := new(big.Int).Add(a, allowance(wi, wo, b2out))
						lim.Add(lim, big.NewInt(1))
						if bi(back.Amount).Cmp(lim) > 0 {
							ps.viol("C03", "C03.round_trip_no_gain", "round_trip/"+kind, fmt.Sprintf("Bin=%s Bout=%s w=%d:%d fee=%s: %s aaa -> %s bbb -> %s aaa (gain beyond the rounding allowance)", bin, bout, wi, wo, fee, a, out.Amount, back.Amount))
						}
					}
				}
				// ---- split into k pieces
				k := int64(2 + r.Intn(4))
				if a.Cmp(big.NewInt(k)) > 0 {
					cb, co := new(big.Int).Set(bin), new(big.Int).Set(bout)
					total := big.NewInt(0)
					piece := new(big.Int).Div(a, big.NewInt(k))
					ok := true
					for j := int64(0); j < k && ok; j++ {
						x := new(big.Int).Set(piece)
						if j == k-1 {
							x = new(big.Int).Sub(a, new(big.Int).Mul(piece, big.NewInt(k-1)))
						}
						pp := cpPool(cb, co, wi, wo, fee)
						sp := pp
						var o sdk.Coin
						var e error
						if perr := safe(func() {
							o, _, _, _, _, e = pp.SwapOutAmtGivenIn(ctx, fakeOracle{}, &sp, sdk.Coins{sdk.NewCoin("aaa", math.NewIntFromBigInt(x))}, "bbb", fee, fakeAcc{}, math.LegacyOneDec(), params)
						}); perr != nil || e != nil {
							ok = false
							break
						}
						total.Add(total, bi(o.Amount))
						cb.Add(cb, x)
						co.Sub(co, bi(o.Amount))
					}
					if ok {
						st.Ev("split_trade")
						lim := new(big.Int).Add(bi(out.Amount), new(big.Int).Mul(allowance(wi, wo, bout), big.NewInt(k+1)))
						if total.Cmp(lim) > 0 {
							ps.viol("C03", "C03.split_no_gain", "split/"+kind, fmt.Sprintf("Bin=%s Bout=%s w=%d:%d fee=%s in=%s: single trade pays %s, %d pieces pay %s", bin, bout, wi, wo, fee, a, out.Amount, k, total))
						}
					}
				}
			}
			// ---- exact-out: ask for a fraction of the out reserve
			want := new(big.Int).Mul(bout, big.NewInt(int64(1+r.Intn(999))))
			want.Div(want, big.NewInt(int64(1000*(1+r.Intn(1000)))))
			if want.Sign() == 0 {
				want = big.NewInt(1)
			}
			pool = cpPool(bin, bout, wi, wo, fee)
			snap = pool
			var tin sdk.Coin
			if perr := safe(func() {
				tin, _, _, _, _, err = pool.SwapInAmtGivenOut(ctx, fakeOracle{}, &snap, sdk.Coins{sdk.NewCoin("bbb", math.NewIntFromBigInt(want))}, "aaa", fee, fakeAcc{}, math.LegacyOneDec(), params)
			}); perr != nil {
				err = perr
				st.Ev("panic_in_pricing_code")
				st.Ev("panic/" + mon.ErrClass(perr.Error()))
			}
			st.EvalCase(fmt.Sprintf("out|%s|%s|%s|%d|%d|%s", bin, bout, want, wi, wo, fee))
			if err != nil {
				st.Ev("exact_out_rejected")
			} else {
				st.Ev("exact_out/" + kind)
				// relative precision of the power result: the charged amount can be a multiple of the reserve
				basis := bin
				if bi(tin.Amount).Cmp(basis) > 0 {
					basis = bi(tin.Amount)
				}
				al := allowance(wi, wo, basis)
				if !ref.InCoversExact(bin, bout, bi(tin.Amount), want, wi, wo, feeRaw, al) {
					need := ref.MinAllowance(new(big.Int).Mul(bin, big.NewInt(1000)), func(x *big.Int) bool { return ref.InCoversExact(bin, bout, bi(tin.Amount), want, wi, wo, feeRaw, x) })
					ps.viol("C03", "C03.cp_in_ge_exact", "exact_out/"+kind, fmt.Sprintf("Bin=%s Bout=%s w=%d:%d fee=%s out=%s: charged in=%s is below the exact requirement by %s units (allowance %s)", bin, bout, wi, wo, fee, want, tin.Amount, need, al))
				}
			}
		}
		pureOracle(c, r, st, ps, n/2)
	})
}

// pureOracle: oracle pools with a fake price table, accounted balances on/off, external-liquidity
// ratio in [1,100] and weight-breaking parameters over their validated range: what the pool pays
// is never worth more than what the trader pays in, at the oracle prices.
func pureOracle(c *run.Ctx, r *rand.Rand, st *mon.Stats, ps *pureStats, n int) {
	ctx := pureCtx()
	for i := 0; i < n; i++ {
		pa := chain.DecF(0.01 + r.Float64()*100).Quo(math.LegacyNewDec(1_000_000))
		pb := chain.DecF(0.01 + r.Float64()*100).Quo(math.LegacyNewDec(1_000_000))
		if r.Intn(4) == 0 { // an 18-decimal asset: tiny per-unit price
			pb = pb.Quo(math.LegacyNewDec(1_000_000_000_000))
		}
		or := fakeOracle{p: map[string]math.LegacyDec{"aaa": pa, "bbb": pb}}
		ba, bb := logUniform(r, 16), logUniform(r, 16)
		if r.Intn(2) == 0 { // roughly balanced by value
			v := new(big.Float).SetInt(ba)
			fa, _ := pa.Float64()
			fb, _ := pb.Float64()
			v.Mul(v, big.NewFloat(fa/fb*(0.3+r.Float64()*3)))
			bb, _ = v.Int(nil)
			if bb == nil || bb.Sign() <= 0 || bb.BitLen() > 100 {
				bb = logUniform(r, 16)
			}
		}
		ratio := math.LegacyNewDec(int64(1 + r.Intn(100)))
		if r.Intn(3) == 0 {
			ratio = math.LegacyOneDec()
		}
		fee := math.LegacyNewDecWithPrec(int64(r.Intn(201)), 4)
		wa, wb := int64(50), int64(50)
		if r.Intn(3) == 0 {
			wa, wb = int64(1+r.Intn(9)), int64(1+r.Intn(9))
		}
		params := ammtypes.DefaultParams()
		switch r.Intn(4) {
		case 0:
			params.WeightBreakingFeeExponent, params.WeightBreakingFeeMultiplier = chain.DecF(r.Float64()*5), chain.DecF(r.Float64()*2)
			params.WeightBreakingFeePortion, params.WeightRecoveryFeePortion = chain.DecF(r.Float64()), chain.DecF(r.Float64())
			params.ThresholdWeightDifference = chain.DecF(r.Float64() * 0.5)
		case 1:
			params.WeightBreakingFeeMultiplier = math.LegacyZeroDec()
		}
		mk := func() ammtypes.Pool {
			return ammtypes.Pool{PoolId: 1, PoolParams: ammtypes.PoolParams{UseOracle: true, SwapFee: fee}, TotalWeight: math.NewInt(wa + wb), TotalShares: sdk.NewCoin("amm/pool/1", math.NewIntWithDecimal(1, 20)),
				PoolAssets: []ammtypes.PoolAsset{{Token: sdk.NewCoin("aaa", math.NewIntFromBigInt(ba)), Weight: math.NewInt(wa), ExternalLiquidityRatio: ratio}, {Token: sdk.NewCoin("bbb", math.NewIntFromBigInt(bb)), Weight: math.NewInt(wb), ExternalLiquidityRatio: ratio}}}
		}
		acc := fakeAcc{}
		if r.Intn(2) == 0 { // accounted balances differ from the reserves (perpetual liabilities - custody)
			acc.b = map[string]math.Int{"aaa": math.NewIntFromBigInt(new(big.Int).Div(new(big.Int).Mul(ba, big.NewInt(int64(80+r.Intn(60)))), big.NewInt(100))), "bbb": math.NewIntFromBigInt(new(big.Int).Div(new(big.Int).Mul(bb, big.NewInt(int64(80+r.Intn(60)))), big.NewInt(100)))}
		}
		a := new(big.Int).Mul(ba, big.NewInt(int64(1+r.Intn(999))))
		a.Div(a, big.NewInt(int64(1000*(1+r.Intn(300)))))
		if a.Sign() == 0 {
			a = big.NewInt(int64(1 + r.Intn(1000)))
		}
		pf := math.LegacyOneDec()
		if r.Intn(4) == 0 {
			pf = chain.DecF(r.Float64())
		}
		pool := mk()
		snap := mk()
		var out sdk.Coin
		var bonus math.LegacyDec
		var err error
		if perr := safe(func() {
			out, _, _, bonus, _, err = pool.SwapOutAmtGivenIn(ctx, or, &snap, sdk.Coins{sdk.NewCoin("aaa", math.NewIntFromBigInt(a))}, "bbb", fee, acc, pf, params)
		}); perr != nil {
			err = perr
			st.Ev("panic_in_pricing_code")
			st.Ev("panic/" + mon.ErrClass(perr.Error()))
		}
		st.EvalCase(fmt.Sprintf("oin|%s|%s|%s|%s|%s|%s", ba, bb, a, pa, pb, ratio))
		if err != nil {
			st.Ev("oracle_exact_in_rejected")
		} else {
			st.Ev("oracle_exact_in")
			if bonus.IsPositive() {
				st.Ev("oracle_bonus_rate_positive")
			}
			// out * pb <= a * pa + pb   (exact rationals over the 18-digit decimals)
			lhs := new(big.Int).Mul(bi(out.Amount), pb.BigInt())
			rhs := new(big.Int).Add(new(big.Int).Mul(a, pa.BigInt()), pb.BigInt())
			if lhs.Cmp(rhs) > 0 {
				ps.viol("C03", "C03.oracle_out_value_le_in_value", "oracle_exact_in", fmt.Sprintf("reserves %s/%s prices %s/%s ratio %s fee %s accounted=%v: in %s aaa pays out %s bbb, worth more than the input", ba, bb, pa, pb, ratio, fee, acc.b != nil, a, out.Amount))
			}
			if i%900 == 0 {
				st.Sample(map[string]interface{}{"case": "oracle exact-in", "reserves": ba.String() + "/" + bb.String(), "prices": pa.String() + "/" + pb.String(), "external_liquidity_ratio": ratio.String(), "fee": fee.String(), "in": a.String(), "out": out.Amount.String(), "bonus_rate": bonus.String()})
			}
		}
		want := new(big.Int).Mul(bb, big.NewInt(int64(1+r.Intn(999))))
		want.Div(want, big.NewInt(int64(1000*(1+r.Intn(300)))))
		if want.Sign() == 0 {
			want = big.NewInt(int64(1 + r.Intn(1000)))
		}
		pool = mk()
		snap = mk()
		var tin sdk.Coin
		if perr := safe(func() {
			tin, _, _, _, _, err = pool.SwapInAmtGivenOut(ctx, or, &snap, sdk.Coins{sdk.NewCoin("bbb", math.NewIntFromBigInt(want))}, "aaa", fee, acc, pf, params)
		}); perr != nil {
			err = perr
			st.Ev("panic_in_pricing_code")
			st.Ev("panic/" + mon.ErrClass(perr.Error()))
		}
		st.EvalCase(fmt.Sprintf("oout|%s|%s|%s|%s|%s|%s", ba, bb, want, pa, pb, ratio))
		if err != nil {
			st.Ev("oracle_exact_out_rejected")
		} else {
			st.Ev("oracle_exact_out")
			// in * pa + pa >= want * pb
			lhs := new(big.Int).Add(new(big.Int).Mul(bi(tin.Amount), pa.BigInt()), pa.BigInt())
			rhs := new(big.Int).Mul(want, pb.BigInt())
			if lhs.Cmp(rhs) < 0 {
				ps.viol("C03", "C03.oracle_in_value_ge_out_value", "oracle_exact_out", fmt.Sprintf("reserves %s/%s prices %s/%s ratio %s fee %s accounted=%v: out %s bbb charged only %s aaa, worth less than the output", ba, bb, pa, pb, ratio, fee, acc.b != nil, want, tin.Amount))
			}
		}
	}
}
