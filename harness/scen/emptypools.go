package scen

import (
	"cosmossdk.io/math"
	sdk "github.com/cosmos/cosmos-sdk/types"
	ammtypes "github.com/elys-network/elys/x/amm/types"
	mctypes "github.com/elys-network/elys/x/masterchef/types"
	sstypes "github.com/elys-network/elys/x/stablestake/types"

	"verifharness/chain"
	"verifharness/run"
)

// empty-pools (C18): rewards aimed at pools nobody has committed anything to. A fresh chain - no
// lender has bonded into the vault yet (its reward pool 32767 exists from the first end-blocker
// on), pools exist with only their creator's shares - governance whitelists external reward denoms
// and switches Eden rewards on; users fund external incentives (a permissionless message) for the
// vault's pool, for the amm pools, for a pool id that does not exist, with windows that start at
// once; fees are paid in three denoms so every collection path has something to split. Only after a
// while somebody bonds, then everybody leaves again.
func init() {
	run.Register("empty-pools", func(c *run.Ctx) {
		w := chain.NewWorld(chain.Config{NUsers: 10, Probes: false, Inflation: 1e14, VestBlocks: 40, EdenClaimed: 1_000_000_000})
		c.Attach(w)
		u := w.Users
		S := []int64{1e12, 1e9, 1e6}[c.Job.Index%3]
		atom := w.Prices["ATOM"]
		atomAmt := math.LegacyNewDec(S).Quo(atom).TruncateInt()
		elysAmt := math.LegacyNewDec(S).Quo(w.Prices["ELYS"]).TruncateInt()
		w.Step(5, w.Tx(u[0], w.CreatePoolMsg(u[0], chain.PoolSpec{Oracle: true, Fee: "0.002", A: chain.CoinI("uatom", atomAmt), B: chain.Coin("uusdc", S), WA: 50, WB: 50})))
		w.Step(5, w.Tx(u[0], w.CreatePoolMsg(u[0], chain.PoolSpec{Fee: "0.003", A: chain.CoinI("uelys", elysAmt), B: chain.Coin("uusdc", S), WA: 1, WB: 1})))
		ok := w.GovExec("rewards on nothing",
			&mctypes.MsgTogglePoolEdenRewards{Authority: w.Gov, PoolId: 1, Enable: true},
			&mctypes.MsgTogglePoolEdenRewards{Authority: w.Gov, PoolId: 2, Enable: true},
			&mctypes.MsgTogglePoolEdenRewards{Authority: w.Gov, PoolId: 32767, Enable: true},
			&mctypes.MsgAddExternalRewardDenom{Authority: w.Gov, RewardDenom: "uatom", MinAmount: math.NewInt(1), Supported: true},
			&mctypes.MsgAddExternalRewardDenom{Authority: w.Gov, RewardDenom: "uusdc", MinAmount: math.NewInt(1), Supported: true},
			&mctypes.MsgAddExternalRewardDenom{Authority: w.Gov, RewardDenom: "uelys", MinAmount: math.NewInt(1), Supported: true})
		if ok {
			c.Ev("reward_denoms_whitelisted")
		}
		if w.Dead {
			return
		}
		h := w.Height
		txs := []*chain.TxRecord{}
		for i, pid := range []uint64{32767, 32767, 1, 2, 99, 3} {
			a := u[2+i]
			dn := []string{"uatom", "uusdc", "uelys"}[i%3]
			txs = append(txs, w.Tx(a, &mctypes.MsgAddExternalIncentive{Sender: a.S(), RewardDenom: dn, PoolId: pid, FromBlock: h + 1 + int64(i%2), ToBlock: h + 30, AmountPerBlock: math.NewInt(int64(1 + i*1000))}))
		}
		b := w.Step(5, txs...)
		if !w.Dead {
			for _, t := range b.Txs[1:] {
				if t.OK() {
					c.Ev("external_incentive_on_uncommitted_pool_accepted")
				} else {
					c.Ev("external_incentive_rejected")
				}
			}
		}
		// fee traffic without any liquidity provider but the creator
		for i := 0; i < 12 && !w.Dead; i++ {
			a := u[3+i%6]
			fee := sdk.NewCoins(chain.Coin([]string{"uusdc", "uatom", "uelys"}[i%3], int64(100+i*977)))
			w.Step(5, w.TxFee(a, fee, &ammtypes.MsgSwapExactAmountIn{Sender: a.S(), Routes: []ammtypes.SwapAmountInRoute{{PoolId: uint64(1 + i%2), TokenOutDenom: "uusdc"}}, TokenIn: chain.Coin([]string{"uatom", "uelys"}[i%2], S/1000+1), TokenOutMinAmount: math.NewInt(1)}))
		}
		// the first lender arrives late, a second one for one block only
		w.Step(5, w.Tx(u[1], &sstypes.MsgBond{Creator: u[1].S(), Amount: math.NewInt(S/10 + 1)}))
		w.Step(5, w.Tx(u[2], &sstypes.MsgBond{Creator: u[2].S(), Amount: math.NewInt(1)}))
		for i := 0; i < 12 && !w.Dead; i++ {
			w.Step(5)
		}
		w.Step(4000)
		// everybody leaves: the creator exits as much as it may, the lenders unbond everything
		for _, a := range []*chain.Actor{u[0], u[1], u[2]} {
			cm := w.App.CommitmentKeeper.GetCommitments(w.ReadCtx(), a.Addr)
			txs := []*chain.TxRecord{}
			for _, ct := range cm.CommittedTokens {
				switch ct.Denom {
				case "stablestake/share":
					txs = append(txs, w.Tx(a, &sstypes.MsgUnbond{Creator: a.S(), Amount: ct.Amount}))
				case ammtypes.GetPoolShareDenom(1), ammtypes.GetPoolShareDenom(2):
					var pid uint64 = 1
					if ct.Denom == ammtypes.GetPoolShareDenom(2) {
						pid = 2
					}
					txs = append(txs, w.Tx(a, &ammtypes.MsgExitPool{Sender: a.S(), PoolId: pid, ShareAmountIn: ct.Amount.MulRaw(999).QuoRaw(1000), MinAmountsOut: sdk.NewCoins()}))
				}
			}
			if len(txs) > 0 {
				w.Step(5, txs...)
			}
		}
		h = w.Height
		w.Step(5, w.Tx(u[5], &mctypes.MsgAddExternalIncentive{Sender: u[5].S(), RewardDenom: "uatom", PoolId: 32767, FromBlock: h + 1, ToBlock: h + 10, AmountPerBlock: math.NewInt(5000)}))
		for i := 0; i < 15 && !w.Dead; i++ {
			w.Step(5)
		}
		w.Step(90000)
		w.Step(5)
	})
}
