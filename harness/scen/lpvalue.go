package scen

import (
	"fmt"

	"cosmossdk.io/math"
	sdk "github.com/cosmos/cosmos-sdk/types"
	ammtypes "github.com/elys-network/elys/x/amm/types"

	"verifharness/chain"
	"verifharness/gen"
	"verifharness/run"
)

var MixLP = gen.Mix{"joinSingle": 14, "joinAll": 14, "exit": 18, "swapIn1": 12, "swapOut1": 5, "swap2hop": 3, "levOpen": 6, "levClose": 5, "levBot": 2, "perpOpen": 5, "perpClose": 4, "donate": 2}

// lp-value: an observed LP joins and exits in every combination of forms (all-asset / single
// asset; exit all-asset / single denom on the oracle pool after the lock) with nobody else touching
// that pool in between and prices flat: the wallet never gains; dust and x10-pool sizes; then
// join / exit heavy free traffic with the per-share monitor attached.
func init() {
	run.Register("lp-value", func(c *run.Ctx) {
		v := NewVariant(c)
		v.Pool3 = true
		w := v.World(c, true, 12)
		v.Prologue(w)
		u := w.Users
		lp := u[9]
		S := v.Scale
		wallet := func() sdk.Coins { return w.App.BankKeeper.GetAllBalances(w.ReadCtx(), lp.Addr) }
		sharesOf := func(pid uint64) math.Int {
			cm := w.App.CommitmentKeeper.GetCommitments(w.ReadCtx(), lp.Addr)
			return cm.GetCommittedAmountForDenom(ammtypes.GetPoolShareDenom(pid))
		}
		value := func(cs sdk.Coins) math.LegacyDec {
			t := math.LegacyZeroDec()
			for _, cn := range cs {
				t = t.Add(w.App.OracleKeeper.GetAssetPriceFromDenom(w.ReadCtx(), cn.Denom).MulInt(cn.Amount))
			}
			return t
		}
		roundTrip := func(name string, pid uint64, join sdk.Msg, exitDenom string, wait int64) {
			if w.Dead {
				return
			}
			before := wallet()
			s0 := sharesOf(pid)
			b := w.Step(5, w.Tx(lp, join))
			if w.Dead || !b.Txs[1].OK() {
				c.Ev("roundtrip_join_rejected/" + name)
				return
			}
			got := sharesOf(pid).Sub(s0)
			if !got.IsPositive() {
				return
			}
			if wait > 0 {
				w.Step(wait) // the 1 h lock of oracle-pool shares
			}
			b = w.Step(5, w.Tx(lp, &ammtypes.MsgExitPool{Sender: lp.S(), PoolId: pid, ShareAmountIn: got, TokenOutDenom: exitDenom, MinAmountsOut: sdk.NewCoins()}))
			if w.Dead || !b.Txs[1].OK() {
				c.Ev("roundtrip_exit_rejected/" + name)
				return
			}
			after := wallet()
			c.Ev("roundtrip/" + name)
			gain := value(after).Sub(value(before))
			st := statsOf(c, "C05")
			st.EvalCase(fmt.Sprintf("roundtrip|%s|%d|%s|%s", name, w.Height, before, after))
			// allowance: one base unit per asset of the pool
			allow := math.LegacyZeroDec()
			for _, d := range []string{"uusdc", "uatom", "uelys"} {
				allow = allow.Add(w.App.OracleKeeper.GetAssetPriceFromDenom(w.ReadCtx(), d))
			}
			perAssetGain := false
			if exitDenom == "" && name[:3] == "all" {
				for _, cn := range after {
					if cn.Amount.GT(before.AmountOf(cn.Denom).AddRaw(1)) {
						perAssetGain = true
					}
				}
			}
			if gain.GT(allow) || perAssetGain {
				w.Report(chain.Violation{Property: "C05", Rule: "C05.join_exit_round_trip", Scope: sc("form", name, "pool", fmt.Sprint(pid)), Ops: []string{"amm.MsgJoinPool", "amm.MsgExitPool"}, Relation: "round_trip_gain",
					Detail: fmt.Sprintf("height %d: %s on pool %d with nobody else touching the pool and flat prices: wallet %s -> %s (value gain %s)", w.Height, name, pid, before, after, gain)})
			}
		}
		all := func(pid uint64, shares math.Int) sdk.Msg {
			return &ammtypes.MsgJoinPool{Sender: lp.S(), PoolId: pid, MaxAmountsIn: sdk.NewCoins(chain.Coin("uusdc", S*100), chain.Coin("uatom", S*100), chain.Coin("uelys", S*100)).Sort(), ShareAmountOut: shares}
		}
		allFor := func(pid uint64, shares math.Int) sdk.Msg {
			p, _ := w.App.AmmKeeper.GetPool(w.ReadCtx(), pid)
			max := sdk.NewCoins()
			for _, a := range p.PoolAssets {
				max = max.Add(chain.Coin(a.Token.Denom, S*100))
			}
			_ = all
			return &ammtypes.MsgJoinPool{Sender: lp.S(), PoolId: pid, MaxAmountsIn: max, ShareAmountOut: shares}
		}
		single := func(pid uint64, d string, amt int64) sdk.Msg {
			return &ammtypes.MsgJoinPool{Sender: lp.S(), PoolId: pid, MaxAmountsIn: sdk.NewCoins(chain.Coin(d, amt)), ShareAmountOut: math.NewInt(1)}
		}
		e18 := math.NewIntWithDecimal(1, 18)
		for _, sz := range []math.Int{e18, e18.MulRaw(1000), math.NewInt(1000), e18.MulRaw(500000)} {
			roundTrip("all->all/cp2", 2, allFor(2, sz), "", 0)
			roundTrip("all->all/cp3", 3, allFor(3, sz), "", 0)
			roundTrip("all->all/oracle", 1, allFor(1, sz), "", 4000)
		}
		for _, amt := range []int64{7, S / 1000, S / 10, S * 10} {
			roundTrip("single->all/oracle", 1, single(1, "uusdc", amt), "", 4000)
			roundTrip("single->single/oracle", 1, single(1, "uatom", amt/5+1), "uusdc", 4000)
			roundTrip("single->single-same/oracle", 1, single(1, "uusdc", amt), "uusdc", 4000)
			roundTrip("all->single/oracle", 1, allFor(1, e18.MulRaw(amt%1000+1)), "uatom", 4000)
		}
		// targeted exit: the creator's shares sized so that the single-denom payout equals a whole reserve
		cr := u[0]
		p1, _ := w.App.AmmKeeper.GetPool(w.ReadCtx(), 1)
		cm := w.App.CommitmentKeeper.GetCommitments(w.ReadCtx(), cr.Addr)
		have := cm.GetCommittedAmountForDenom(ammtypes.GetPoolShareDenom(1))
		for _, num := range []int64{50, 49, 51, 60} {
			sh := p1.TotalShares.Amount.MulRaw(num).QuoRaw(100)
			if sh.GT(have) {
				sh = have
			}
			b := w.Step(5, w.Tx(cr, &ammtypes.MsgExitPool{Sender: cr.S(), PoolId: 1, ShareAmountIn: sh, TokenOutDenom: "uatom", MinAmountsOut: sdk.NewCoins()}))
			if !w.Dead && b.Txs[1].OK() {
				c.Ev("targeted_reserve_draining_exit_accepted")
				// put the liquidity back so the run can go on
				w.Step(5, w.Tx(cr, &ammtypes.MsgJoinPool{Sender: cr.S(), PoolId: 1, MaxAmountsIn: sdk.NewCoins(chain.Coin("uatom", S/5)), ShareAmountOut: math.NewInt(1)}))
				break
			}
			c.Ev("targeted_reserve_draining_exit_rejected")
		}
		// swaps-then-exit: bursts of swaps through the leveraged oracle pool by other users (a swap fee
		// and a weight-breaking fee leave the pool's books on each of them, and every derived record
		// of the pool has to follow), then, with nothing else in between and flat prices, a provider's
		// single-denom exit — in the denom the burst left over-weight and in the other one — judged
		// by the per-share monitor against the balances the pool really has
		w.Step(4000) // lock-ups of the shares joined above expire
		for round := 0; round < 6 && !w.Dead; round++ {
			// the provider with the most shares of the pool exits
			cr = u[0]
			held := func(a *chain.Actor) math.Int {
				cm := w.App.CommitmentKeeper.GetCommitments(w.ReadCtx(), a.Addr)
				return cm.GetCommittedAmountForDenom(ammtypes.GetPoolShareDenom(1))
			}
			for _, a := range u[:8] {
				if held(a).GT(held(cr)) {
					cr = a
				}
			}
			in, out := "uusdc", "uatom"
			if round%2 == 1 {
				in, out = out, in
			}
			for k := 0; k < 2 && !w.Dead; k++ {
				p1, _ := w.App.AmmKeeper.GetPool(w.ReadCtx(), 1)
				var rin math.Int
				for _, a := range p1.PoolAssets {
					if a.Token.Denom == in {
						rin = a.Token.Amount
					}
				}
				txs := []*chain.TxRecord{}
				for i, div := range []int64{12, 25, 40} {
					a := u[[]int{8, 10, 11}[i]]
					txs = append(txs, w.Tx(a, &ammtypes.MsgSwapExactAmountIn{Sender: a.S(), Routes: []ammtypes.SwapAmountInRoute{{PoolId: 1, TokenOutDenom: out}}, TokenIn: sdk.NewCoin(in, rin.QuoRaw(div).AddRaw(1)), TokenOutMinAmount: math.NewInt(1)}))
				}
				w.Step(5, txs...)
			}
			exitDenom := in // the side the burst left over-weight
			if round >= 4 {
				exitDenom = out
			}
			cmc := w.App.CommitmentKeeper.GetCommitments(w.ReadCtx(), cr.Addr)
			sh := cmc.GetCommittedAmountForDenom(ammtypes.GetPoolShareDenom(1)).QuoRaw(40)
			if !sh.IsPositive() || w.Dead {
				break
			}
			b := w.Step(5, w.Tx(cr, &ammtypes.MsgExitPool{Sender: cr.S(), PoolId: 1, ShareAmountIn: sh, TokenOutDenom: exitDenom, MinAmountsOut: sdk.NewCoins()}))
			if !w.Dead && b.Txs[1].OK() {
				c.Ev("single_denom_exit_right_after_swap_burst")
			} else {
				c.Ev("single_denom_exit_right_after_swap_burst_refused")
			}
		}
		g := v.Gen(w, c, MixLP)
		g.MaxTx = 8
		n := c.N(120, 400)
		g.Free(n/3, g.StdDt)
		exitAgainstCustody(c, w)
		if c.Job.Index%3 == 1 && !w.Dead {
			NewChaos(c, w, g).Run(n-n/3, g.StdDt)
		} else {
			g.Free(n-n/3, g.StdDt)
		}
	})
}
