package scen

import (
	"bufio"
	"encoding/hex"
	"fmt"
	"math/rand"
	"os"
	"os/exec"
	"path/filepath"
	"strings"
	"syscall"
	"time"

	mctypes "github.com/elys-network/elys/x/masterchef/types"

	"verifharness/chain"
	"verifharness/run"
)

// crash-kill: fault injection at the process level. The primary produces a history with the wide
// workload and records its inputs; a separate process (`verif crashchild`) replays them over an
// on-disk LevelDB and is killed with SIGKILL at arbitrary moments - inside FinalizeBlock, inside
// Commit, between the two, while the database is flushing - and started again until it reaches the
// end (the kill follows the child's own progress: after a PRNG-chosen number of reported blocks plus
// a PRNG-chosen fraction of a block). Deciding oracle (no clock involved): every application hash the child reports, before or
// after any number of kills, equals the primary's hash of that height; after a restart the child
// is at a height it had reported as committed, or one above; it never fails to start.
func init() {
	run.Register("crash-kill", func(c *run.Ctx) {
		// Every other instance straddles the wall clock: genesis at the real time of the run, one-second
		// blocks, a price expiry of three seconds, and the replaying process starts six seconds later -
		// it executes the same blocks at a real time on the other side of "block time + expiry". A state
		// machine that consults the node's clock instead of the block time computes something else
		// there. (The clock is read by the workload only; the verdict is hash equality.)
		straddle := c.Job.Index%2 == 1
		var w *chain.World
		var v *Variant
		if straddle {
			v = NewVariant(c)
			w = chain.NewWorld(chain.Config{NUsers: 12, Probes: false, Inflation: 1e14, VestBlocks: 50, EdenClaimed: 3_000_000_000, EnableVestNow: true, PriceExpiry: 3, LifeTimeBlock: 100000, Airdrops: true, GenesisTime: time.Now().Unix()})
			c.Attach(w)
			c.Ev("wall_clock_straddling_instance")
		} else {
			w, v = wideWorld(c, false)
		}
		v.Prologue(w)
		w.GovExec("eden on", &mctypes.MsgTogglePoolEdenRewards{Authority: w.Gov, PoolId: 1, Enable: true}, &mctypes.MsgTogglePoolEdenRewards{Authority: w.Gov, PoolId: 2, Enable: true})
		burnerOn(c, w)
		g := v.Gen(w, c, MixWide)
		g.FeeProb = 0.4
		g.MaxTx = 8
		g.Free(c.N(70, 220), func(i int) int64 {
			if straddle {
				return 1
			}
			if i%29 == 28 {
				return 90000
			}
			return g.StdDt(i)
		})
		if w.Dead {
			return
		}
		st := statsOf(c, "C19")
		tmp, err := os.MkdirTemp("", "verifcrashkill")
		if err != nil {
			c.Inconclusive = "crash-kill: " + err.Error()
			return
		}
		defer os.RemoveAll(tmp)
		logPath, dbDir, outPath := filepath.Join(tmp, "blocks.gob"), filepath.Join(tmp, "db"), filepath.Join(tmp, "out.txt")
		if err := w.WriteBlockLog(logPath); err != nil {
			c.Inconclusive = "crash-kill: " + err.Error()
			return
		}
		want := map[int64]string{}
		var last int64
		for _, b := range w.Blocks {
			if b.Res != nil {
				want[b.Height] = hex.EncodeToString(b.AppHash)
				last = b.Height
			}
		}
		self, _ := os.Executable()
		if straddle {
			time.Sleep(6 * time.Second)
		}
		r := rand.New(rand.NewSource(c.Job.Sub(41)))
		kills, starts := 0, 0
		maxKills := c.N(25, 80)
		finished := false
		stderrTail := ""
		for starts < maxKills+3 && !finished {
			starts++
			cmd := exec.Command(self, "crashchild", logPath, dbDir, outPath)
			ef, _ := os.Create(filepath.Join(tmp, fmt.Sprintf("err%d.txt", starts)))
			cmd.Stdout, cmd.Stderr = ef, ef
			cmd.Env = append(os.Environ(), "GOMAXPROCS=2")
			if err := cmd.Start(); err != nil {
				c.Inconclusive = "crash-kill: child start: " + err.Error()
				return
			}
			done := make(chan error, 1)
			go func() { done <- cmd.Wait() }()
			// the moment of the kill is tied to the child's own progress, not to the clock: let a
			// PRNG-chosen number of further blocks be reported (0 = still starting up or in its first
			// block), then wait a PRNG-chosen fraction of a block longer. A loaded machine changes where
			// exactly inside a block the kill lands, not how many kills there are.
			target := []int{0, 0, 1, 1, 2, 3, 5, 8}[r.Intn(8)]
			extra := time.Duration(r.Intn(25_000)) * time.Microsecond
			if kills >= maxKills {
				target = 1 << 30 // let it finish
			}
			// Until the child has reported its first committed block it is not killed: the property
			// speaks of a node stopped after a committed block, and a kill inside the very first Commit
			// can leave the SDK's stores at version 1 with the commit metadata still at 0 - the restarted
			// application then runs InitChain again on top of them and panics in a third-party keeper
			// ("SetIndex requires index to not be set"), which is not the code under test. From the first
			// committed block on, kills land anywhere, inside commits included.
			if !fileContains(outPath, "\nblock ") && target < 1 {
				target = 1
			}
			base := countLines(outPath)
			trigger := make(chan struct{})
			stopPoll := make(chan struct{})
			go func() {
				for {
					select {
					case <-stopPoll:
						return
					default:
					}
					if countLines(outPath)-base >= target+1 { // +1: the "start" line of this run
						time.Sleep(extra)
						close(trigger)
						return
					}
					time.Sleep(2 * time.Millisecond)
				}
			}()
			delayC := trigger
			select {
			case werr := <-done:
				close(stopPoll)
				ef.Close()
				if werr == nil {
					finished = true
				} else {
					bs, _ := os.ReadFile(ef.Name())
					stderrTail = string(bs)
					if len(stderrTail) > 1500 {
						stderrTail = stderrTail[len(stderrTail)-1500:]
					}
					w.Report(chain.Violation{Property: "C19", Rule: "C19.restart_after_kill", Scope: sc("kind", "child_failed"), Relation: "child_exit_nonzero", Height: last,
						Detail: fmt.Sprintf("the replaying process failed by itself after %d kills (%v): %s", kills, werr, stderrTail)})
					finished = true
				}
			case <-delayC:
				cmd.Process.Signal(syscall.SIGKILL)
				<-done
				ef.Close()
				kills++
				st.Ev("process_kills")
			}
			select {
			case <-stopPoll:
			default:
				close(stopPoll)
			}
		}
		if !finished {
			c.Inconclusive = "crash-kill: child did not finish"
			return
		}
		// judge the child's reports
		f, err := os.Open(outPath)
		if err != nil {
			c.Inconclusive = "crash-kill: no child output"
			return
		}
		defer f.Close()
		committed := int64(0) // highest height the child reported as committed
		reported := map[int64]bool{}
		doneSeen := false
		sc2 := bufio.NewScanner(f)
		sc2.Buffer(make([]byte, 1<<20), 1<<20)
		killHeights := map[int64]bool{}
		for sc2.Scan() {
			fs := strings.Fields(sc2.Text())
			if len(fs) == 0 {
				continue
			}
			switch fs[0] {
			case "start":
				var h int64
				fmt.Sscan(fs[1], &h)
				st.Eval("restart", fmt.Sprint(h, len(reported)))
				killHeights[h] = true
				// the database is at a height the child had reported as committed, or one above (killed
				// after the commit reached the disk but before the report did)
				if h < committed || h > committed+1 {
					w.Report(chain.Violation{Property: "C19", Rule: "C19.restart_after_kill", Scope: sc("kind", "height"), Relation: "restart_height", Height: h,
						Detail: fmt.Sprintf("after a kill the database is at height %d although height %d had been reported as committed", h, committed)})
				}
				if h >= 1 && len(fs) > 2 && fs[2] != want[h] {
					w.Report(chain.Violation{Property: "C19", Rule: "C19.restart_after_kill", Scope: sc("kind", "hash_after_restart"), Relation: "hash_differs", Height: h,
						Detail: fmt.Sprintf("after a kill the database is at height %d with commit hash %s, the primary's hash of that height is %s", h, fs[2], want[h])})
				}
				if h > committed {
					committed = h
				}
			case "block":
				var h int64
				fmt.Sscan(fs[1], &h)
				st.Eval("childblock", fmt.Sprint(h, fs[2]))
				reported[h] = true
				if fs[2] != want[h] || fs[3] != want[h] {
					w.Report(chain.Violation{Property: "C19", Rule: "C19.restart_after_kill", Scope: sc("kind", "block_hash"), Relation: "hash_differs", Height: h,
						Detail: fmt.Sprintf("height %d replayed after %d restarts: FinalizeBlock hash %s commit hash %s, primary %s", h, len(killHeights)-1, fs[2], fs[3], want[h])})
				}
				if h > committed {
					committed = h
				}
			case "done":
				doneSeen = true
			default:
				w.Report(chain.Violation{Property: "C19", Rule: "C19.restart_after_kill", Scope: sc("kind", fs[0]), Relation: "child_reported_failure", Detail: "child: " + sc2.Text()})
			}
		}
		c.Extra["process_kills"] = kills
		c.Extra["distinct_restart_heights"] = len(killHeights)
		if !doneSeen || committed != last {
			w.Report(chain.Violation{Property: "C19", Rule: "C19.restart_after_kill", Scope: sc("kind", "incomplete"), Relation: "did_not_reach_end", Height: committed,
				Detail: fmt.Sprintf("the replaying process ended at height %d, the primary at %d", committed, last)})
		}
		c.Require(kills >= 5 && len(killHeights) >= 3, "at least 5 kills at 3 distinct heights")
		st.Sample(map[string]interface{}{"case": "process killed with SIGKILL and restarted from its LevelDB", "kills": kills, "distinct_restart_heights": len(killHeights), "blocks": last})
	})
}

func countLines(path string) int {
	bs, err := os.ReadFile(path)
	if err != nil {
		return 0
	}
	return strings.Count(string(bs), "\n")
}

func fileContains(path, sub string) bool {
	bs, err := os.ReadFile(path)
	return err == nil && strings.Contains("\n"+string(bs), sub)
}
