package scen

import (
	"verifharness/mon"
	"verifharness/run"
)

func plan(quick, thorough []run.PlanItem) func(string) []run.PlanItem {
	return func(tier string) []run.PlanItem {
		if tier == "quick" {
			return quick
		}
		return thorough
	}
}

func pi(s string, n int) run.PlanItem { return run.PlanItem{Scenario: s, Count: n} }

const boundsAssume = "bounds: <= 4 pools, <= 24 accounts, <= 2000 blocks per history, reserves <= 1e18, the workloads' reachable states only; IBC paths not driven"

func init() {
	run.Props["C01"] = &run.PropSpec{ID: "C01", Level: "exploration",
		Rule:     "one evaluation = one (pool, asset) reserve-vs-bank equation or one DenomLiquidity equation after a committed block; distinct & non-trivial = the operand tuple (book, bank) of that equation changed since its previous evaluation and was never seen before (hash set)",
		Monitors: func() []mon.Monitor { return []mon.Monitor{mon.NewC01()} },
		Plan:     plan([]run.PlanItem{pi("mix", 12)}, []run.PlanItem{pi("mix", 64)}),
		Assume:   []string{boundsAssume, "donations = successful bank MsgSend to a pool address observed in the block log"}}
	run.Props["C02"] = &run.PropSpec{ID: "C02", Level: "exploration",
		Rule:     "one evaluation = one pool's (TotalShares, supply, sum committed, custody) relation after a committed block; distinct = the tuple changed and is new; plus every share mint/burn bank event attributed to its transaction or block phase",
		Monitors: func() []mon.Monitor { return []mon.Monitor{mon.NewC02()} },
		Plan:     plan([]run.PlanItem{pi("mix", 12)}, []run.PlanItem{pi("mix", 64)}),
		Assume:   []string{boundsAssume}}
	run.Props["C06"] = &run.PropSpec{ID: "C06", Level: "exploration",
		Rule:     "one evaluation = the vault equation TotalValue == cash + sum(debt) after a committed block or after a successful stablestake/leveragelp transaction (post-tx probe); distinct = operand tuple changed and new",
		Monitors: func() []mon.Monitor { return []mon.Monitor{mon.NewC06()} },
		Plan:     plan([]run.PlanItem{pi("mix", 12)}, []run.PlanItem{pi("mix", 64)}),
		Assume:   []string{boundsAssume}}
	run.Props["C08"] = &run.PropSpec{ID: "C08", Level: "exploration",
		Rule:     "one evaluation = one position's LP-vs-committed equation, one pool-total-vs-sum equation, the counter equation, or one removed-position residue check after a committed block; distinct = operands changed and new",
		Monitors: func() []mon.Monitor { return []mon.Monitor{mon.NewC08()} },
		Plan:     plan([]run.PlanItem{pi("mix", 12)}, []run.PlanItem{pi("mix", 64)}),
		Assume:   []string{boundsAssume}}
	run.Props["C09"] = &run.PropSpec{ID: "C09", Level: "exploration",
		Rule:     "one evaluation = one (pool, side, asset) aggregate-vs-sum relation, one reserve>=custody relation or the counter equation after a committed block; distinct = operands changed and new",
		Monitors: func() []mon.Monitor { return []mon.Monitor{mon.NewC09()} },
		Plan:     plan([]run.PlanItem{pi("mix", 12)}, []run.PlanItem{pi("mix", 64)}),
		Assume:   []string{boundsAssume}}
	run.Props["C11"] = &run.PropSpec{ID: "C11", Level: "exploration",
		Rule:     "one evaluation = one (pool, asset) accounted-total equation after a committed block; distinct = (reserve, liabilities, custody) changed and new",
		Monitors: func() []mon.Monitor { return []mon.Monitor{mon.NewC11()} },
		Plan:     plan([]run.PlanItem{pi("mix", 12)}, []run.PlanItem{pi("mix", 64)}),
		Assume:   []string{boundsAssume}}
}
