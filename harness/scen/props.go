package scen

import (
	"verifharness/mon"
	"verifharness/run"
)

func plan(quick, thorough []run.PlanItem) func(string) []run.PlanItem {
	return func(tier string) []run.PlanItem {
		if tier == "quick" {
			return quick
		}
		// the thorough tier runs three times the listed instance counts (every instance has its own
		// seed and world / parameter variant); the race-detector scenario is listed at its real count
		out := make([]run.PlanItem, len(thorough))
		for i, it := range thorough {
			out[i] = it
			if it.Scenario != "race" {
				out[i].Count = it.Count * 3
			}
		}
		return out
	}
}

func pi(s string, n int) run.PlanItem { return run.PlanItem{Scenario: s, Count: n} }

const boundsAssume = "bounds: <= 4 pools, <= 24 accounts, <= 2000 blocks per history, reserves <= 1e18, the workloads' reachable states only; IBC paths not driven"

func init() {
	run.Props["C01"] = &run.PropSpec{ID: "C01", Level: "exploration",
		Rule:     "one evaluation = one (pool, asset) reserve-vs-bank equation or one DenomLiquidity equation after a committed block; distinct & non-trivial = the operand tuple (book, bank) of that equation changed since its previous evaluation and was never seen before (hash set)",
		Monitors: func() []mon.Monitor { return []mon.Monitor{mon.NewC01()} },
		Plan:     plan([]run.PlanItem{pi("mix", 16), pi("lp-value", 6), pi("swap-batch", 6), pi("forced", 6), pi("rewards", 4), pi("orders", 4), pi("lev-thin", 4)}, []run.PlanItem{pi("mix", 40), pi("lp-value", 12), pi("swap-batch", 12), pi("forced", 12), pi("rewards", 8), pi("orders", 8), pi("faults", 12), pi("lev-thin", 4)}),
		Assume:   []string{boundsAssume, "donations = successful bank MsgSend to a pool address observed in the block log"}}
	run.Props["C02"] = &run.PropSpec{ID: "C02", Level: "exploration",
		Rule:     "one evaluation = one pool's (TotalShares, supply, sum committed, custody) relation after a committed block; distinct = the tuple changed and is new; plus every share mint/burn bank event attributed to its transaction or block phase",
		Monitors: func() []mon.Monitor { return []mon.Monitor{mon.NewC02()} },
		Plan:     plan([]run.PlanItem{pi("mix", 16), pi("lp-value", 8), pi("forced", 6), pi("rewards", 4), pi("commit-life", 4), pi("lev-thin", 4)}, []run.PlanItem{pi("mix", 40), pi("lp-value", 16), pi("forced", 12), pi("rewards", 8), pi("commit-life", 8), pi("faults", 12), pi("lev-thin", 4)}),
		Assume:   []string{boundsAssume}}
	run.Props["C06"] = &run.PropSpec{ID: "C06", Level: "exploration",
		Rule:     "one evaluation = the vault equation TotalValue == cash + sum(debt) after a committed block or after a successful stablestake/leveragelp transaction (post-tx probe); distinct = operand tuple changed and new",
		Monitors: func() []mon.Monitor { return []mon.Monitor{mon.NewC06()} },
		Plan:     plan([]run.PlanItem{pi("mix", 12), pi("forced", 8), pi("vault", 12), pi("lev-thin", 4)}, []run.PlanItem{pi("mix", 32), pi("forced", 16), pi("vault", 24), pi("faults", 12), pi("lev-thin", 4)}),
		Assume:   []string{boundsAssume}}
	run.Props["C08"] = &run.PropSpec{ID: "C08", Level: "exploration",
		Rule:     "one evaluation = one position's LP-vs-committed equation, one pool-total-vs-sum equation, the counter equation, or one removed-position residue check after a committed block; distinct = operands changed and new",
		Monitors: func() []mon.Monitor { return []mon.Monitor{mon.NewC08()} },
		Plan:     plan([]run.PlanItem{pi("mix", 12), pi("forced", 12), pi("vault", 8), pi("lev-thin", 4)}, []run.PlanItem{pi("mix", 32), pi("forced", 24), pi("vault", 16), pi("faults", 12), pi("lev-thin", 4)}),
		Assume:   []string{boundsAssume}}
	run.Props["C09"] = &run.PropSpec{ID: "C09", Level: "exploration",
		Rule:     "one evaluation = one (pool, side, asset) aggregate-vs-sum relation, one reserve>=custody relation or the counter equation after a committed block; distinct = operands changed and new",
		Monitors: func() []mon.Monitor { return []mon.Monitor{mon.NewC09()} },
		Plan:     plan([]run.PlanItem{pi("mix", 12), pi("forced", 12), pi("orders", 8)}, []run.PlanItem{pi("mix", 32), pi("forced", 24), pi("orders", 16), pi("faults", 12)}),
		Assume:   []string{boundsAssume}}
	run.Props["C11"] = &run.PropSpec{ID: "C11", Level: "exploration",
		Rule:     "one evaluation = one (pool, asset) accounted-total equation after a committed block; distinct = (reserve, liabilities, custody) changed and new",
		Monitors: func() []mon.Monitor { return []mon.Monitor{mon.NewC11()} },
		Plan:     plan([]run.PlanItem{pi("mix", 12), pi("forced", 12), pi("orders", 10), pi("lp-value", 4), pi("lev-thin", 4)}, []run.PlanItem{pi("mix", 32), pi("forced", 24), pi("orders", 12), pi("lp-value", 8), pi("faults", 12), pi("lev-thin", 4)}),
		Assume:   []string{boundsAssume}}
	run.Props["C12"] = &run.PropSpec{ID: "C12", Level: "exploration",
		Rule:     "one evaluation = one denom's TotalCommitted-vs-sum equation, one custody inequality, or one (account, denom) lock-up inequality; distinct = operands changed and new. Committed amounts are diffed at every tx / block-phase boundary to build the monitor's own uncommit ledger and the reference lock-up ledger",
		Monitors: func() []mon.Monitor { return []mon.Monitor{mon.NewC12()} },
		Plan:     plan([]run.PlanItem{pi("commit-life", 16), pi("mix", 12), pi("forced", 2)}, []run.PlanItem{pi("commit-life", 32), pi("mix", 24), pi("rewards", 8), pi("forced", 8)}),
		Assume:   []string{boundsAssume, "lock-up reference: every increase of committed oracle-pool shares is locked for 3600 s of block time; leveragelp ClosePositions and the leveragelp sweep may override (their justification is C10's)"}}
	run.Props["C13"] = &run.PropSpec{ID: "C13", Level: "exploration",
		Rule:     "one evaluation = one reward denom's solvency inequality after a block, one per-block credit-vs-inflow inequality, or one holder's claimable amount that changed at a tx / block-phase boundary; distinct = operands changed and new; plus the drain test (every holder claims in seeded random order)",
		Monitors: func() []mon.Monitor { return []mon.Monitor{mon.NewC13()} },
		Plan:     plan([]run.PlanItem{pi("rewards", 10)}, []run.PlanItem{pi("rewards", 48), pi("mix", 16)}),
		Assume:   []string{boundsAssume, "pending is recomputed from the stores for every account that has a commitment or a user-reward record"}}
	run.Props["C15"] = &run.PropSpec{ID: "C15", Level: "exploration",
		Rule:     "one evaluation = one denom's supply after a committed block (delta explained by the block's bank mint/burn events, rule per denom class) or one sum-of-balances equation; distinct = supply value changed and new; every mint/burn event is attributed to its tx / block phase",
		Monitors: func() []mon.Monitor { return []mon.Monitor{mon.NewC15()} },
		Plan:     plan([]run.PlanItem{pi("mix", 12), pi("commit-life", 8), pi("rewards", 8)}, []run.PlanItem{pi("mix", 32), pi("commit-life", 16), pi("rewards", 16)}),
		Assume:   []string{boundsAssume, "IBC vouchers are observed only as 'unchanged' (no counterparty chain in the sandbox)"}}
	run.Props["C18"] = &run.PropSpec{ID: "C18", Level: "fault_enumeration",
		Rule:     "one evaluation = one block driven through FinalizeBlock+Commit (error / recovered panic recorded by the driver); distinct = (height, AppHash) pairs; base histories x enumerated fault schedules (oracle outages, block-time gaps, parameter-edge governance)",
		Monitors: func() []mon.Monitor { return []mon.Monitor{mon.NewC18(), mon.NewC18Twin()} },
		Plan:     plan([]run.PlanItem{pi("faults", 24), pi("rewards", 2), pi("mix", 2), pi("commit-life", 2), pi("empty-pools", 3)}, []run.PlanItem{pi("faults", 72), pi("rewards", 12), pi("mix", 12), pi("commit-life", 12), pi("forced", 8), pi("orders", 8), pi("empty-pools", 6)}),
		Assume:   []string{boundsAssume}}
	run.Props["C19"] = &run.PropSpec{ID: "C19", Level: "fault_enumeration",
		Rule:     "one evaluation = one (replica, block) comparison of AppHash + every tx result (code, data, gas, log, events) + block events as a multiset against the primary; replicas: un-probed plain, restarted after every height, crashed between FinalizeBlock and Commit at every height; plus (scenario crash-kill) a separate replaying process over an on-disk LevelDB killed with SIGKILL at arbitrary moments and restarted until it reaches the end: every hash it reports and the height / hash it restarts at are compared with the primary; plus (scenario race, one instance in the quick tier, three longer ones in the thorough tier) a race-detector build of the application producing blocks while other goroutines run CheckTx, Simulate (full handler execution of fourteen message types) and gRPC queries against it; distinct = (replica, height, AppHash)",
		Monitors: func() []mon.Monitor { return []mon.Monitor{mon.NewC19()} },
		Plan:     plan([]run.PlanItem{pi("replicas", 8), pi("faults", 3), pi("orders", 2), pi("commit-life", 2), pi("forced", 2), pi("crash-kill", 3), pi("race", 1)}, []run.PlanItem{pi("replicas", 32), pi("faults", 12), pi("orders", 6), pi("commit-life", 6), pi("forced", 6), pi("vault", 4), pi("rewards", 4), pi("crash-kill", 8), pi("race", 3)}),
		Assume:   []string{boundsAssume, "different process-level randomisation is obtained from separate app objects in one process (Go randomises every map range independently)"}}
	run.Props["C14"] = &run.PropSpec{ID: "C14", Level: "exploration",
		Rule:     "one evaluation = one successful vest / claim / cancel / vest-now transaction of an observed account checked against the monitor's own linear-schedule reference (entries and balances snapshotted by the pre-message probe, compared in the post-tx probe), or one conservation equation; distinct = (op, account, entries before -> after) never seen before",
		Monitors: func() []mon.Monitor { return []mon.Monitor{mon.NewC14()} },
		Plan:     plan([]run.PlanItem{pi("commit-life", 20), pi("vest-edge", 8), pi("pure-vesting", 2)}, []run.PlanItem{pi("commit-life", 48), pi("vest-edge", 12), pi("replicas", 4), pi("pure-vesting", 4)}),
		Assume:   []string{boundsAssume, "single-message transactions for the observed accounts (the harness only sends those)"}}
	run.Props["C16"] = &run.PropSpec{ID: "C16", Level: "exploration",
		Rule:     "one evaluation = one GetAssetPrice / GetAssetPriceFromDenom lookup (after every commit and at the pre-message probe of every non-oracle message) compared with the reference map, one feed message judged against the reference feeder set, or one full store-vs-reference comparison; distinct = (asked name, returned entry) changed and new",
		Monitors: func() []mon.Monitor { return []mon.Monitor{mon.NewC16()} },
		Plan:     plan([]run.PlanItem{pi("oracle-names", 24)}, []run.PlanItem{pi("oracle-names", 48)}),
		Assume:   []string{boundsAssume, "reference = successful feed messages observed at the post-tx probe + the end-block expiry rule with the parameters read from state; feeder-set changes executed by governance are mirrored by reading the feeder store after the block"}}
	run.Props["C04"] = &run.PropSpec{ID: "C04", Level: "exploration",
		Rule:     "one evaluation = one swap request of an attributable sender/recipient (addresses used by exactly one request in the block): balances snapshotted before the message, after the tx, and immediately before/after the AMM end-blocker; the deltas must match the 'executed' or the 'nothing' pattern; plus idle-block and queue-empty checks; distinct = (msg, sender, stated amounts, sender delta, recipient delta) never seen before",
		Monitors: func() []mon.Monitor { return []mon.Monitor{mon.NewC04()} },
		Plan:     plan([]run.PlanItem{pi("swap-batch", 24), pi("mix", 8)}, []run.PlanItem{pi("swap-batch", 48), pi("mix", 16)}),
		Assume:   []string{boundsAssume, "a request is judged only if its sender and recipient take part in no other swap request of the same block (single-message txs); tradeshield-executed swaps are not judged here"}}
	run.Props["C10"] = &run.PropSpec{ID: "C10", Level: "exploration",
		Rule:     "one evaluation = one (position, close-positions entry or sweep visit): the implementation's own health after the handler's interest/funding update, the safety factor and the trigger comparison measured on a branch immediately before that entry's turn (request list replayed entry by entry), against the before/after diff of every position and owner balance; or one successful open / consolidation / order-executed open (stored and recomputed health vs safety factor); distinct = (position, step, health, trigger, outcome) new",
		Monitors: func() []mon.Monitor { return []mon.Monitor{mon.NewC10()} },
		Plan:     plan([]run.PlanItem{pi("forced", 12), pi("mix", 4), pi("lev-thin", 4)}, []run.PlanItem{pi("forced", 48), pi("mix", 16), pi("lev-thin", 4)}),
		Assume:   []string{boundsAssume, "health is measured with the implementation's own GetPositionHealth / GetMTPHealth; lists are replayed entry by entry with the module's own single-entry handler (assumes sequential list processing: liquidate, stop-loss, take-profit); both the stored health and the health recomputed after the tx are compared hard (no tolerance band)"}}
	run.Props["C20"] = &run.PropSpec{ID: "C20", Level: "exploration",
		Rule:     "one evaluation = one (order, execution request) with the trigger condition evaluated by the monitor from the market price the handler reads, or one per-owner wallet+escrow conservation equation around a tradeshield transaction of anyone; distinct = (order, height, trigger, outcome) or (owner, height, funds) new",
		Monitors: func() []mon.Monitor { return []mon.Monitor{mon.NewC20()} },
		Plan:     plan([]run.PlanItem{pi("orders", 24)}, []run.PlanItem{pi("orders", 48)}),
		Assume:   []string{boundsAssume, "market price read with the same exported functions the handlers use (amm.CalculateUSDValue, perpetual.GetAssetPrice); single-message transactions"}}
	run.Props["C17"] = &run.PropSpec{ID: "C17", Level: "exploration",
		Rule:     "enumeration of every /elys. sdk.Msg registered by the running app (signer field from cosmos.msg.v1.signer; gated = field named authority + explicit table for x/parameter). One evaluation = one (gated message, non-authorised sender) handler call on a discarded branch with the digest of all stores compared before/after, or one such message / owner-scoped attack sent through a real block (substitution twin AppHash equality); distinct = (message type, sender class, sender, state)",
		Monitors: func() []mon.Monitor { return []mon.Monitor{mon.NewC17()} },
		Plan:     plan([]run.PlanItem{pi("authz-sweep", 2)}, []run.PlanItem{pi("authz-sweep", 6)}),
		Assume:   []string{boundsAssume, "complete over the registered message set x sender classes on the sampled states; a fixture that does not reach the signer check is listed as uncovered, not as held"}}
	run.Props["C03"] = &run.PropSpec{ID: "C03", Level: "exploration",
		Rule:     "one evaluation = one generated (pool, trade) case run through the real Pool.SwapOutAmtGivenIn / SwapInAmtGivenOut and compared with the exact integer weighted-product inequality (constant product: reserves log-uniform in [1,1e18], reduced weights 1..64, fee in [0,2%] x discount, trade from 1 unit to multiples of the reserve; derived round-trip and split-trade checks) or with value-in >= value-out at the fake oracle prices (oracle pools: accounted balances on/off, external-liquidity ratio 1..100, weight-breaking params over their range); plus, on the full app, the value the oracle pool pays vs receives in every AMM end-blocker; distinct = the generated tuple",
		Monitors: func() []mon.Monitor { return []mon.Monitor{mon.NewC03()} },
		Plan:     plan([]run.PlanItem{pi("pure-amm", 24), pi("swap-batch", 8), pi("forced", 2)}, []run.PlanItem{pi("pure-amm", 48), pi("swap-batch", 16), pi("mix", 8), pi("forced", 8)}),
		Assume:   []string{"reserves <= 1e18 for the one-base-unit verdict; allowance 1 unit (equal weights) or 1e-8 of the reserve + 1 (unequal weights), as the property grants", "the two keeper interfaces the pool methods take (oracle price table, accounted-balance table) are faked in the pure part"}}
	run.Props["C05"] = &run.PropSpec{ID: "C05", Level: "exploration",
		Rule:     "one evaluation = one generated (pool, join or exit) case through the real Pool.JoinPool / ExitPool (constant product 2-4 assets, weights 1..16, deposits from dust to multiples of the pool, requested shares from dust to all; oracle pools with a fake price table) compared with exact integer per-share inequalities, the value function prod(B^w)/S, join-then-exit round trips and the book-consistency / positive-reserve rules; plus, on the full app, per-share value of the remaining liquidity around every join / exit; distinct = the generated tuple",
		Monitors: func() []mon.Monitor { return []mon.Monitor{mon.NewC05()} },
		Plan:     plan([]run.PlanItem{pi("pure-shares", 24), pi("lp-value", 8), pi("lev-thin", 4)}, []run.PlanItem{pi("pure-shares", 48), pi("lp-value", 16), pi("mix", 8), pi("lev-thin", 12)}),
		Assume:   []string{"allowance one base unit per asset, or 1e-8 of the reserve + 1 for single-asset joins of weighted pools, as the property grants", "the two keeper interfaces the pool methods take are faked in the pure part; app part values oracle pools at the oracle prices and accounted balances in force"}}
	run.Props["C07"] = &run.PropSpec{ID: "C07", Level: "exploration",
		Rule:     "one evaluation = the redemption rate at one tx / block-phase boundary compared (exact rationals) with the previous one, one bond / unbond judged against the fair conversion at the pre-message rate, one other holder's redeemable value around a bond / unbond, one successful borrow against the 90 % cap on the pre-message state, or one bond-then-unbond round trip of the observed lender; distinct = operands changed and new; plus the pure conversion grid",
		Monitors: func() []mon.Monitor { return []mon.Monitor{mon.NewC07()} },
		Plan:     plan([]run.PlanItem{pi("vault", 20), pi("mix", 6), pi("lev-thin", 4)}, []run.PlanItem{pi("vault", 40), pi("mix", 12), pi("forced", 8), pi("lev-thin", 4)}),
		Assume:   []string{boundsAssume, "rounding allowance: one share's worth (ceil of the rate), as the property grants; redemption rates >= 1"}}
}
