package scen

import (
	"cosmossdk.io/math"
	sdk "github.com/cosmos/cosmos-sdk/types"
	ammtypes "github.com/elys-network/elys/x/amm/types"
	mctypes "github.com/elys-network/elys/x/masterchef/types"
	oracletypes "github.com/elys-network/elys/x/oracle/types"
	sstypes "github.com/elys-network/elys/x/stablestake/types"

	"verifharness/chain"
	"verifharness/gen"
	"verifharness/run"
)

var MixRewards = gen.Mix{"swapIn1": 20, "swapOut1": 8, "swap2hop": 5, "swapByDenom": 3, "joinSingle": 6, "joinAll": 6, "exit": 8, "levOpen": 4, "levClose": 4, "levBot": 1,
	"perpOpen": 8, "perpClose": 6, "perpBot": 3, "bond": 6, "unbond": 6, "mcClaim": 8, "commitClaimed": 3, "uncommit": 2, "stake": 2, "unstake": 1, "delegate": 2, "undelegate": 1, "estWithdraw": 2, "vest": 2, "claimVesting": 2, "cancelVest": 1}

// rewards: fee traffic on several pools, gas fees in three denoms, perpetual revenue, external
// incentives, Eden rewards enabled through governance, holders joining/leaving between
// distributions; ends with a drain (everybody claims in a seeded random order).
func init() {
	run.Register("rewards", func(c *run.Ctx) {
		v := NewVariant(c)
		w := chain.NewWorld(chain.Config{NUsers: 12, Probes: true, Inflation: 1e14, VestBlocks: 60, EdenClaimed: 0})
		c.Attach(w)
		v.Prologue(w)
		u := w.Users
		// governance: Eden rewards on pools 1 and 2, uatom and uelys as external reward denoms
		ok := w.GovExec("rewards setup",
			&mctypes.MsgTogglePoolEdenRewards{Authority: w.Gov, PoolId: 1, Enable: true},
			&mctypes.MsgTogglePoolEdenRewards{Authority: w.Gov, PoolId: 2, Enable: true},
			&mctypes.MsgAddExternalRewardDenom{Authority: w.Gov, RewardDenom: "uatom", MinAmount: math.NewInt(1000), Supported: true},
			&mctypes.MsgAddExternalRewardDenom{Authority: w.Gov, RewardDenom: "uelys", MinAmount: math.NewInt(1000), Supported: true})
		c.Require(ok, "rewards governance setup passed")
		g := v.Gen(w, c, MixRewards)
		g.FeeProb = 0.6
		n := c.N(160, 500)
		// external incentive windows
		h := w.Height
		w.Step(5, w.Tx(u[3], &mctypes.MsgAddExternalIncentive{Sender: u[3].S(), RewardDenom: "uatom", PoolId: 2, FromBlock: h + 5, ToBlock: h + 5 + int64(n/3), AmountPerBlock: math.NewInt(1_000_000)}),
			w.Tx(u[4], &mctypes.MsgAddExternalIncentive{Sender: u[4].S(), RewardDenom: "uelys", PoolId: 1, FromBlock: h + 20, ToBlock: h + 20 + int64(n/2), AmountPerBlock: math.NewInt(777_777)}),
			// shorter incentives in the other denom on the same pools, created later (higher id) but
			// starting EARLIER than, and ending before, the long ones: when the long incentive starts
			// its pool is already paying another denom, for a while two reward denoms of one pool are
			// paid in the same blocks, and providers come and go throughout
			w.Tx(u[5], &mctypes.MsgAddExternalIncentive{Sender: u[5].S(), RewardDenom: "uelys", PoolId: 2, FromBlock: h + 2, ToBlock: h + 2 + 22, AmountPerBlock: math.NewInt(333_333)}),
			w.Tx(u[6], &mctypes.MsgAddExternalIncentive{Sender: u[6].S(), RewardDenom: "uatom", PoolId: 1, FromBlock: h + 10, ToBlock: h + 10 + 25, AmountPerBlock: math.NewInt(444_444)}))
		g.Free(n/2, g.StdDt)
		// late joiner one block before a distribution, then leaves right after
		late := u[11]
		w.Step(5, w.Tx(late, g.Op("joinAll", late, w.ReadCtx())))
		w.Step(5, w.Tx(late, g.Op("mcClaim", late, w.ReadCtx())))
		if ok2 := w.GovExec("multipliers", &mctypes.MsgUpdatePoolMultipliers{Authority: w.Gov, PoolMultipliers: []mctypes.PoolMultiplier{{PoolId: 1, Multiplier: chain.Dec("2.0")}, {PoolId: 2, Multiplier: chain.Dec("0.5")}}}); ok2 {
			c.Ev("multipliers_changed")
		}
		// every other instance: governance gives the constant-product pool a fee denom other than the
		// base currency (accepted: its own non-stable asset), so its collected fees are converted into
		// and distributed from a different token than everybody else's
		if c.Job.Index%2 == 0 && !w.Dead {
			if p2, ok := w.App.AmmKeeper.GetPool(w.ReadCtx(), 2); ok {
				pp := p2.PoolParams
				pp.FeeDenom = "uelys"
				if w.GovExec("pool 2 fee denom", &ammtypes.MsgUpdatePoolParams{Authority: w.Gov, PoolId: 2, PoolParams: pp}) {
					c.Ev("pool_fee_denom_is_not_the_base_currency")
				}
			}
		}
		g.Free(n/4, g.StdDt)
		// price outage around the start of an incentive in a reward denom that is new to its pool: the
		// oracle parameters are made short-lived, every feed stops until all prices have expired (pool
		// values evaluate to zero), a user funds an incentive that starts at once, a late provider joins
		// the constant-product pool after a few paid blocks, the feeds come back
		if !w.Dead {
			op := w.App.OracleKeeper.GetParams(w.ReadCtx())
			op.PriceExpiryTime, op.LifeTimeInBlocks = 30, 6
			okp := w.GovExec("short-lived prices", &oracletypes.MsgUpdateParams{Authority: w.Gov, Params: op},
				&mctypes.MsgAddExternalRewardDenom{Authority: w.Gov, RewardDenom: "uusdc", MinAmount: math.NewInt(1), Supported: true})
			if okp {
				c.Ev("oracle_params_short_lived")
			}
			w.Silent = map[string]bool{"ATOM": true, "USDC": true, "ELYS": true}
			for i := 0; i < 10 && !w.Dead; i++ {
				w.Step(7)
			}
			h := w.Height
			w.Step(7, w.Tx(u[5], &mctypes.MsgAddExternalIncentive{Sender: u[5].S(), RewardDenom: "uelys", PoolId: 2, FromBlock: h + 1, ToBlock: h + 40, AmountPerBlock: math.NewInt(1_000_000)}),
				w.Tx(u[6], &mctypes.MsgAddExternalIncentive{Sender: u[6].S(), RewardDenom: "uatom", PoolId: 32767, FromBlock: h + 1, ToBlock: h + 40, AmountPerBlock: math.NewInt(500_000)}))
			for i := 0; i < 5 && !w.Dead; i++ {
				w.Step(7)
			}
			lateLP := u[10]
			if p2, ok := w.App.AmmKeeper.GetPool(w.ReadCtx(), 2); ok && !w.Dead {
				max := sdk.NewCoins()
				for _, a := range p2.PoolAssets {
					max = max.Add(chain.Coin(a.Token.Denom, 1e13))
				}
				b := w.Step(7, w.Tx(lateLP, &ammtypes.MsgJoinPool{Sender: lateLP.S(), PoolId: 2, MaxAmountsIn: max, ShareAmountOut: p2.TotalShares.Amount.QuoRaw(3)}),
					w.Tx(u[9], &sstypes.MsgBond{Creator: u[9].S(), Amount: math.NewInt(v.Scale / 10)}))
				if !w.Dead && b.Txs[1].OK() {
					c.Ev("late_join_during_price_outage")
				}
			}
			for i := 0; i < 8 && !w.Dead; i++ {
				w.Step(7)
			}
			w.Silent = map[string]bool{}
			c.Ev("price_outage_around_incentive_start")
		}
		if c.Job.Index%3 == 1 && !w.Dead {
			NewChaos(c, w, g).Run(n/4, g.StdDt)
		} else {
			g.Free(n/4, g.StdDt)
		}
		// drain: everybody claims, seeded random order, consecutive blocks
		if !w.Dead {
			perm := g.R.Perm(len(w.All))
			for _, i := range perm {
				ac := w.All[i]
				ids := []uint64{32767}
				for _, p := range w.App.AmmKeeper.GetAllPool(w.ReadCtx()) {
					ids = append(ids, p.PoolId)
				}
				b := w.Step(5, w.Tx(ac, &mctypes.MsgClaimRewards{Sender: ac.S(), PoolIds: ids}))
				if w.Dead {
					break
				}
				t := b.Txs[len(b.Txs)-1]
				c.Ev("drain_claims")
				if !t.OK() {
					w.Report(chain.Violation{Property: "C13", Rule: "C13.drain_claim_succeeds", Scope: sc("denom", "any"), Ops: []string{"masterchef.MsgClaimRewards"}, Relation: "claim_failed",
						Detail: "drain: claim of " + ac.Name + " failed: " + t.Result.Log})
				}
			}
		}
		c.Require(w.OkCount["/elys.masterchef.MsgClaimRewards"] > 5, "reward claims succeeded")
	})
}

func sc(kv ...string) map[string]string {
	m := map[string]string{}
	for i := 0; i+1 < len(kv); i += 2 {
		m[kv[i]] = kv[i+1]
	}
	return m
}

var _ = sdk.NewCoin
