package scen

import (
	"cosmossdk.io/math"
	burnertypes "github.com/elys-network/elys/x/burner/types"
	mctypes "github.com/elys-network/elys/x/masterchef/types"

	"verifharness/chain"
	"verifharness/gen"
	"verifharness/run"
)

// MixWide: every end-blocker busy (swap batches, reward distribution, epochs, burner, EdenB burn,
// price expiry, sweeps).
var MixWide = gen.Mix{"swapIn1": 14, "swapOut1": 8, "swap2hop": 5, "swapByDenom": 4, "joinSingle": 5, "joinAll": 5, "exit": 8, "levOpen": 8, "levClose": 7, "levStop": 2, "levClaim": 1, "levBot": 4,
	"perpOpen": 10, "perpClose": 8, "perpSL": 2, "perpTP": 2, "perpBot": 5, "bond": 4, "unbond": 4, "donate": 2, "mcClaim": 4,
	"commitClaimed": 3, "uncommit": 2, "vest": 3, "claimVesting": 3, "cancelVest": 2, "vestNow": 1, "stake": 2, "unstake": 2, "delegate": 2, "undelegate": 2, "estWithdraw": 2,
	"ordSpot": 7, "ordPerp": 5, "ordUpdate": 2, "ordCancel": 2, "ordExec": 9, "burnSend": 3, "hostileRegistry": 2}

func wideWorld(c *run.Ctx, probes bool) (*chain.World, *Variant) {
	v := NewVariant(c)
	w := chain.NewWorld(chain.Config{NUsers: 12, Probes: probes, Inflation: 1e14, VestBlocks: 50, EdenClaimed: 3_000_000_000, EnableVestNow: true, PriceExpiry: 86400, LifeTimeBlock: 100000, Airdrops: true})
	c.Attach(w)
	return w, v
}

// burnerOn: governance gives the burner module a real epoch (its default identifier names none).
func burnerOn(c *run.Ctx, w *chain.World) {
	if w.GovExec("burner epoch", &burnertypes.MsgUpdateParams{Authority: w.Gov, Params: burnertypes.Params{EpochIdentifier: "five_minutes"}}) {
		c.Ev("burner_epoch_set")
	}
}

func init() {
	run.Register("replicas", func(c *run.Ctx) {
		w, v := wideWorld(c, true)
		v.Prologue(w)
		w.GovExec("eden on", &mctypes.MsgTogglePoolEdenRewards{Authority: w.Gov, PoolId: 1, Enable: true}, &mctypes.MsgTogglePoolEdenRewards{Authority: w.Gov, PoolId: 2, Enable: true})
		burnerOn(c, w)
		g := v.Gen(w, c, MixWide)
		g.FeeProb = 0.4
		g.MaxTx = 8
		if c.Job.Prop == "C19" {
			g.MultiMsg = 0.15
		}
		n := c.N(120, 400)
		// several things of the same kind falling due in ONE block (whatever the code collects them in
		// decides the order they are stored in): incentives in three reward denoms, new to each of
		// three pools, all starting at the same height
		if w.GovExec("reward denoms", &mctypes.MsgAddExternalRewardDenom{Authority: w.Gov, RewardDenom: "uatom", MinAmount: math.NewInt(1), Supported: true},
			&mctypes.MsgAddExternalRewardDenom{Authority: w.Gov, RewardDenom: "uelys", MinAmount: math.NewInt(1), Supported: true},
			&mctypes.MsgAddExternalRewardDenom{Authority: w.Gov, RewardDenom: "uusdc", MinAmount: math.NewInt(1), Supported: true}) {
			h := w.Height
			txs := []*chain.TxRecord{}
			k := 0
			for _, pid := range []uint64{1, 2, 32767} {
				for _, dn := range []string{"uatom", "uelys", "uusdc"} {
					a := w.Users[k]
					txs = append(txs, w.Tx(a, &mctypes.MsgAddExternalIncentive{Sender: a.S(), RewardDenom: dn, PoolId: pid, FromBlock: h + 4, ToBlock: h + 4 + 25, AmountPerBlock: math.NewInt(int64(1000 + 37*k))}))
					k++
				}
			}
			b := w.Step(5, txs...)
			for _, t := range b.Txs[1:] {
				if t.OK() {
					c.Ev("incentive_starting_with_others_in_one_block")
				}
			}
		}
		// block-time gaps so that day / week epochs (burner, tier, estaking) fire several at a time
		g.Free(n, func(i int) int64 {
			switch {
			case i%37 == 36:
				return 90000
			case i%53 == 52:
				return 8 * 86400
			case g.R.Intn(30) == 0:
				return 4000
			}
			return 5
		})
	})
}
