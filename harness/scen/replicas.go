package scen

import (
	burnertypes "github.com/elys-network/elys/x/burner/types"
	mctypes "github.com/elys-network/elys/x/masterchef/types"

	"verifharness/chain"
	"verifharness/gen"
	"verifharness/run"
)

// MixWide: every end-blocker busy (swap batches, reward distribution, epochs, burner, EdenB burn,
// price expiry, sweeps).
var MixWide = gen.Mix{"swapIn1": 14, "swapOut1": 8, "swap2hop": 5, "swapByDenom": 4, "joinSingle": 5, "joinAll": 5, "exit": 8, "levOpen": 8, "levClose": 7, "levStop": 2, "levClaim": 1, "levBot": 4,
	"perpOpen": 10, "perpClose": 8, "perpSL": 2, "perpTP": 2, "perpBot": 5, "bond": 4, "unbond": 4, "donate": 2, "mcClaim": 4,
	"commitClaimed": 3, "uncommit": 2, "vest": 3, "claimVesting": 3, "cancelVest": 2, "vestNow": 1, "stake": 2, "unstake": 2, "delegate": 2, "undelegate": 2, "estWithdraw": 2,
	"ordSpot": 7, "ordPerp": 5, "ordUpdate": 2, "ordCancel": 2, "ordExec": 9, "burnSend": 3, "hostileRegistry": 2}

func wideWorld(c *run.Ctx, probes bool) (*chain.World, *Variant) {
	v := NewVariant(c)
	w := chain.NewWorld(chain.Config{NUsers: 12, Probes: probes, Inflation: 1e14, VestBlocks: 50, EdenClaimed: 3_000_000_000, EnableVestNow: true, PriceExpiry: 86400, LifeTimeBlock: 100000, Airdrops: true})
	c.Attach(w)
	return w, v
}

// burnerOn: governance gives the burner module a real epoch (its default identifier names none).
func burnerOn(c *run.Ctx, w *chain.World) {
	if w.GovExec("burner epoch", &burnertypes.MsgUpdateParams{Authority: w.Gov, Params: burnertypes.Params{EpochIdentifier: "five_minutes"}}) {
		c.Ev("burner_epoch_set")
	}
}

func init() {
	run.Register("replicas", func(c *run.Ctx) {
		w, v := wideWorld(c, true)
		v.Prologue(w)
		w.GovExec("eden on", &mctypes.MsgTogglePoolEdenRewards{Authority: w.Gov, PoolId: 1, Enable: true}, &mctypes.MsgTogglePoolEdenRewards{Authority: w.Gov, PoolId: 2, Enable: true})
		burnerOn(c, w)
		g := v.Gen(w, c, MixWide)
		g.FeeProb = 0.4
		g.MaxTx = 8
		n := c.N(120, 400)
		// block-time gaps so that day / week epochs (burner, tier, estaking) fire several at a time
		g.Free(n, func(i int) int64 {
			switch {
			case i%37 == 36:
				return 90000
			case i%53 == 52:
				return 8 * 86400
			case g.R.Intn(30) == 0:
				return 4000
			}
			return 5
		})
	})
}
