package scen

import (
	"fmt"
	"sort"
	"strings"

	"cosmossdk.io/math"
	sdk "github.com/cosmos/cosmos-sdk/types"
	authtypes "github.com/cosmos/cosmos-sdk/x/auth/types"
	ammtypes "github.com/elys-network/elys/x/amm/types"
	aptypes "github.com/elys-network/elys/x/assetprofile/types"
	burnertypes "github.com/elys-network/elys/x/burner/types"
	commitmenttypes "github.com/elys-network/elys/x/commitment/types"
	lptypes "github.com/elys-network/elys/x/leveragelp/types"
	mctypes "github.com/elys-network/elys/x/masterchef/types"
	oracletypes "github.com/elys-network/elys/x/oracle/types"
	parametertypes "github.com/elys-network/elys/x/parameter/types"
	perptypes "github.com/elys-network/elys/x/perpetual/types"
	tokenomicstypes "github.com/elys-network/elys/x/tokenomics/types"
	tstypes "github.com/elys-network/elys/x/tradeshield/types"

	"verifharness/chain"
	"verifharness/gen"
	"verifharness/mon"
	"verifharness/run"
)

// Fixtures: one valid instance of every governance-gated message (authority is overwritten by the
// sweep). Message types missing here get a reflection-built fixture.
func Fixtures(w *chain.World) map[string][]sdk.Msg {
	gov := w.Gov
	u := w.Users
	fx := map[string][]sdk.Msg{}
	add := func(m sdk.Msg) { fx[sdk.MsgTypeURL(m)] = append(fx[sdk.MsgTypeURL(m)], m) }
	edges := ParamEdges(w)
	for _, k := range []string{"masterchef.portions_half", "amm.weight_breaking_large", "perpetual.safety_high", "leveragelp.safety_high", "stablestake.rates_huge", "oracle.expiry_huge", "estaking.boost_huge", "tradeshield.zero",
		"parameter.blocks_per_year_1", "parameter.rewards_data_lifetime_1", "commitment.vesting_huge", "masterchef.multipliers_huge"} {
		for _, m := range edges[k]() {
			add(m)
		}
	}
	if p, ok := w.App.AmmKeeper.GetPool(w.ReadCtx(), 1); ok {
		pp := p.PoolParams
		pp.SwapFee = chain.Dec("0.019")
		add(&ammtypes.MsgUpdatePoolParams{Authority: gov, PoolId: 1, PoolParams: pp})
	}
	add(&aptypes.MsgUpdateEntry{Authority: gov, BaseDenom: "uatom", Decimals: 6, Denom: "uatom", DisplayName: "ATOM", CommitEnabled: false, WithdrawEnabled: false})
	add(&aptypes.MsgDeleteEntry{Authority: gov, BaseDenom: "uatom"})
	add(&burnertypes.MsgUpdateParams{Authority: gov, Params: burnertypes.Params{EpochIdentifier: "week"}})
	add(&commitmenttypes.MsgUpdateEnableVestNow{Authority: gov, EnableVestNow: false})
	add(&lptypes.MsgWhitelist{Authority: gov, WhitelistedAddress: u[3].S()})
	add(&lptypes.MsgDewhitelist{Authority: gov, WhitelistedAddress: u[3].S()})
	add(&lptypes.MsgAddPool{Authority: gov, Pool: lptypes.AddPool{AmmPoolId: 2, LeverageMax: math.LegacyNewDec(5)}})
	add(&lptypes.MsgRemovePool{Authority: gov, Id: 1})
	add(&mctypes.MsgAddExternalRewardDenom{Authority: gov, RewardDenom: "uatom", MinAmount: math.NewInt(1), Supported: true})
	add(&mctypes.MsgTogglePoolEdenRewards{Authority: gov, PoolId: 2, Enable: true})
	add(&oracletypes.MsgRemoveAssetInfo{Authority: gov, Denom: "uatom"})
	add(&oracletypes.MsgAddPriceFeeders{Authority: gov, Feeders: []string{u[4].S()}})
	add(&oracletypes.MsgRemovePriceFeeders{Authority: gov, Feeders: []string{w.Feeder.S()}})
	add(&perptypes.MsgWhitelist{Authority: gov, WhitelistedAddress: u[3].S()})
	add(&perptypes.MsgDewhitelist{Authority: gov, WhitelistedAddress: u[3].S()})
	inf := &tokenomicstypes.InflationEntry{LmRewards: 1, IcsStakingRewards: 2, CommunityFund: 3, StrategicReserve: 4, TeamTokensVested: 5}
	add(&tokenomicstypes.MsgCreateAirdrop{Authority: gov, Intent: "verif", Amount: 100, Expiry: 1 << 40})
	add(&tokenomicstypes.MsgUpdateAirdrop{Authority: gov, Intent: "verif", Amount: 100, Expiry: 1 << 40})
	add(&tokenomicstypes.MsgDeleteAirdrop{Authority: gov, Intent: "verif"})
	// airdrops recorded in genesis name their claimer as authority: the claimer must not be able to
	// change or delete its own record
	for _, al := range w.App.TokenomicsKeeper.GetAllAirdrop(w.ReadCtx()) {
		add(&tokenomicstypes.MsgUpdateAirdrop{Authority: gov, Intent: al.Intent, Amount: 1 << 40, Expiry: 1 << 40})
		add(&tokenomicstypes.MsgDeleteAirdrop{Authority: gov, Intent: al.Intent})
		break
	}
	add(&tokenomicstypes.MsgUpdateGenesisInflation{Authority: gov, Inflation: inf, SeedVesting: 1, StrategicSalesVesting: 1})
	add(&tokenomicstypes.MsgCreateTimeBasedInflation{Authority: gov, StartBlockHeight: 5, EndBlockHeight: 50, Description: "verif", Inflation: inf})
	add(&tokenomicstypes.MsgUpdateTimeBasedInflation{Authority: gov, StartBlockHeight: 1, EndBlockHeight: 100_000_000, Description: "verif", Inflation: inf})
	add(&tokenomicstypes.MsgDeleteTimeBasedInflation{Authority: gov, StartBlockHeight: 1, EndBlockHeight: 100_000_000})
	add(&parametertypes.MsgUpdateMinCommission{Creator: gov, MinCommission: chain.Dec("0.05")})
	add(&parametertypes.MsgUpdateMaxVotingPower{Creator: gov, MaxVotingPower: chain.Dec("0.66")})
	add(&parametertypes.MsgUpdateMinSelfDelegation{Creator: gov, MinSelfDelegation: math.NewInt(1)})
	return fx
}

// Senders: every class of non-authorised sender.
func Senders(w *chain.World) map[string][]string {
	s := map[string][]string{
		"user":               {w.Users[3].S(), w.Users[7].S()},
		"pool_creator":       {w.Users[0].S()},
		"price_feeder":       {w.Feeder.S()},
		"staked_voter":       {w.Voter.S()},
		"validator_operator": {sdk.AccAddress(w.ValOper).String()},
		"fresh_address":      {chain.MkActor("nobody").S()},
	}
	mods := []string{"amm", "commitment", "masterchef", "stablestake", "perpetual", "leveragelp", "burner", "estaking", "tradeshield", "oracle", "tokenomics", "parameter", "assetprofile", "tier", "accountedpool", "epochs", "transferhook",
		"fee_collector", "distribution", "bonded_tokens_pool", "not_bonded_tokens_pool", "mint", "transfer", "cons_redistribute", "cons_to_send_to_provider"}
	for _, m := range mods {
		s["module_account"] = append(s["module_account"], authtypes.NewModuleAddress(m).String())
	}
	ctx := w.ReadCtx()
	for _, p := range w.App.AmmKeeper.GetAllPool(ctx) {
		s["pool_address"] = append(s["pool_address"], p.Address, p.RebalanceTreasury)
	}
	return s
}

var MixAuthz = gen.Mix{"swapIn1": 10, "joinAll": 4, "exit": 3, "levOpen": 6, "levClose": 3, "perpOpen": 8, "perpClose": 4, "bond": 4, "unbond": 2, "vest": 4, "claimVesting": 3, "commitClaimed": 3, "ordSpot": 6, "ordPerp": 5, "ordExec": 3, "mcClaim": 3, "delegate": 2}

func init() {
	run.Register("authz-sweep", func(c *run.Ctx) {
		w, v := wideWorld(c, true)
		twin := mon.NewTwinFor("C17", "C17.rejected_msg_leaves_state_unchanged")
		w.AddProbe(twin)
		c.Mons = append(c.Mons, twin)
		v.Prologue(w)
		w.GovExec("eden on", &mctypes.MsgTogglePoolEdenRewards{Authority: w.Gov, PoolId: 1, Enable: true})
		var st *mon.Stats
		for _, m := range c.Mons {
			if x, ok := m.(*mon.C17); ok {
				st = x.Stats()
			}
		}
		if st == nil {
			st = mon.NewStats("C17")
		}
		g := v.Gen(w, c, MixAuthz)
		g.MaxTx = 8
		states := c.N(3, 12)
		var last mon.AuthResult
		enum := mon.EnumerateMsgs(w)
		gated, all := []string{}, []string{}
		for _, e := range enum {
			all = append(all, e.TypeURL)
			if e.Gated {
				gated = append(gated, e.TypeURL)
			}
		}
		c.Extra["message_types"] = len(all)
		c.Extra["gated_message_types"] = gated
		for sidx := 0; sidx < states && !w.Dead; sidx++ {
			g.Free(c.N(40, 40), g.StdDt)
			// (a) in-process sweep: every gated message x every sender of every class
			last = mon.CheckGated(w, st, Fixtures(w), Senders(w))
			c.EvN("inprocess_evaluations", int64(last.Evaluations))
			// (b) through real blocks: a user signs the gated message naming itself as authority;
			// and names the governance address as authority (its own signature cannot match)
			fx := Fixtures(w)
			keys := []string{}
			for k := range fx {
				keys = append(keys, k)
			}
			sort.Strings(keys)
			users := w.Users[3:11]
			for i := 0; i < len(keys) && !w.Dead; i += len(users) {
				txs := []*chain.TxRecord{}
				for j := 0; j < len(users) && i+j < len(keys); j++ {
					m := mon.CloneMsg(w, fx[keys[i+j]][0])
					field := "authority"
					if strings.HasPrefix(keys[i+j], "/elys.parameter.") {
						field = "creator"
					}
					mon.SetSigner(m, field, users[j].S())
					txs = append(txs, w.Tx(users[j], m))
				}
				b := w.Step(5, txs...)
				if w.Dead {
					break
				}
				for _, t := range b.Txs[1:] {
					c.Ev("abci_gated_attempts")
					st.EvalCase(fmt.Sprintf("abci|%s|%d", t.MsgType(), w.Height))
					if t.OK() {
						w.Report(chain.Violation{Property: "C17", Rule: "C17.gated_msg_rejected", Scope: sc("msg", strings.TrimPrefix(t.MsgType(), "/elys."), "sender_class", "user_via_abci"), Ops: []string{t.MsgType()}, Relation: "accepted_from_non_authority",
							Detail: fmt.Sprintf("height %d: %s signed by %s naming itself as authority was accepted (code 0)", w.Height, t.MsgType(), t.Signer.Name)})
					}
				}
			}
			// gov address as authority, user's signature
			if !w.Dead {
				m := mon.CloneMsg(w, fx["/elys.masterchef.MsgTogglePoolEdenRewards"][0])
				b := w.Step(5, w.Tx(w.Users[5], m))
				if !w.Dead && b.Txs[1].OK() {
					w.Report(chain.Violation{Property: "C17", Rule: "C17.gated_msg_rejected", Scope: sc("msg", "masterchef.MsgTogglePoolEdenRewards", "sender_class", "user_signature_gov_authority"), Relation: "accepted_with_foreign_signature", Detail: "authority=gov signed by a user was accepted"})
				}
				c.Ev("abci_foreign_signature_attempts")
			}
			// (c) owner-scoped: the attacker names the victims' orders / positions / ids
			ownerScoped(c, w, st)
		}
		c.Extra["sender_classes"] = func() []string {
			out := []string{}
			for k, v := range Senders(w) {
				out = append(out, fmt.Sprintf("%s(%d)", k, len(v)))
			}
			sort.Strings(out)
			return out
		}()
		c.Extra["uncovered_message_types"] = last.Uncovered
		c.Extra["generic_fixture_message_types"] = last.GenericFixture
		c.Extra["exhaustive"] = len(last.Uncovered) == 0
		c.Require(last.Gated >= 30, "at least 30 gated message types enumerated from the registry")
	})
}

// ownerScoped: an attacker sends update / cancel / close / claim messages naming the victims'
// records, alone in a block; whatever the result, the victims' records and balances are identical.
func ownerScoped(c *run.Ctx, w *chain.World, st *mon.Stats) {
	att := w.Users[11]
	a := w.App
	// the attacker owns pending orders of its own (far from the market) so that batch messages can
	// mix its own ids with the victims', in either order
	atom := w.Prices["ATOM"]
	w.Step(5, w.Tx(att, &tstypes.MsgCreateSpotOrder{OrderType: tstypes.SpotOrderType_LIMITBUY, OrderPrice: tstypes.OrderPrice{BaseDenom: "uusdc", QuoteDenom: "uatom", Rate: math.LegacyOneDec().Quo(atom).QuoInt64(50)}, OrderAmount: chain.Coin("uusdc", 1_000_000), OwnerAddress: att.S(), OrderTargetDenom: "uatom"}),
		w.Tx(att, &tstypes.MsgCreatePerpetualOpenOrder{OwnerAddress: att.S(), TriggerPrice: tstypes.TriggerPrice{TradingAssetDenom: "uatom", Rate: atom.QuoInt64(50)}, Collateral: chain.Coin("uusdc", 1_000_000), TradingAsset: "uatom", Position: tstypes.PerpetualPosition_LONG, Leverage: chain.Dec("2"), TakeProfitPrice: atom.MulInt64(3), StopLossPrice: math.LegacyZeroDec(), PoolId: 1}))
	if w.Dead {
		return
	}
	// victims also hold degenerate-but-valid orders: an amount of zero (nothing is escrowed for it),
	// one base unit, and an order far from the market
	vic := w.Users[2]
	for _, amt := range []int64{0, 1} {
		b := w.Step(5, w.Tx(vic, &tstypes.MsgCreateSpotOrder{OrderType: tstypes.SpotOrderType_LIMITBUY, OrderPrice: tstypes.OrderPrice{BaseDenom: "uusdc", QuoteDenom: "uatom", Rate: math.LegacyOneDec().Quo(atom).QuoInt64(40)}, OrderAmount: chain.Coin("uusdc", amt), OwnerAddress: vic.S(), OrderTargetDenom: "uatom"}))
		if !w.Dead && b.Txs[1].OK() {
			c.Ev(fmt.Sprintf("victim_order_with_amount_%d_accepted", amt))
		}
	}
	if w.Dead {
		return
	}
	ctx := w.ReadCtx()
	msgs := []sdk.Msg{}
	ownSpot, ownPerp := []uint64{}, []uint64{}
	for _, o := range a.TradeshieldKeeper.GetAllPendingSpotOrder(ctx) {
		if o.OwnerAddress == att.S() {
			ownSpot = append(ownSpot, o.OrderId)
		}
	}
	for _, o := range a.TradeshieldKeeper.GetAllPendingPerpetualOrder(ctx) {
		if o.OwnerAddress == att.S() {
			ownPerp = append(ownPerp, o.OrderId)
		}
	}
	nSpot := 0
	// the newest foreign orders first (the degenerate ones above among them)
	spots := a.TradeshieldKeeper.GetAllPendingSpotOrder(ctx)
	for i, j := 0, len(spots)-1; i < j; i, j = i+1, j-1 {
		spots[i], spots[j] = spots[j], spots[i]
	}
	for _, o := range spots {
		if o.OwnerAddress != att.S() {
			msgs = append(msgs, &tstypes.MsgCancelSpotOrder{OwnerAddress: att.S(), OrderId: o.OrderId}, &tstypes.MsgUpdateSpotOrder{OwnerAddress: att.S(), OrderId: o.OrderId, OrderPrice: o.OrderPrice}, &tstypes.MsgCancelSpotOrders{Creator: att.S(), SpotOrderIds: []uint64{o.OrderId}})
			if len(ownSpot) > 0 {
				c.Ev("batch_mixing_own_and_foreign_ids")
				msgs = append(msgs, &tstypes.MsgCancelSpotOrders{Creator: att.S(), SpotOrderIds: []uint64{ownSpot[0], o.OrderId}}, &tstypes.MsgCancelSpotOrders{Creator: att.S(), SpotOrderIds: []uint64{o.OrderId, ownSpot[0]}})
			}
			if nSpot++; nSpot >= 6 {
				break
			}
		}
	}
	for _, o := range a.TradeshieldKeeper.GetAllPendingPerpetualOrder(ctx) {
		if o.OwnerAddress != att.S() {
			msgs = append(msgs, &tstypes.MsgCancelPerpetualOrder{OwnerAddress: att.S(), OrderId: o.OrderId}, &tstypes.MsgUpdatePerpetualOrder{OwnerAddress: att.S(), OrderId: o.OrderId, TriggerPrice: o.TriggerPrice}, &tstypes.MsgCancelPerpetualOrders{OwnerAddress: att.S(), OrderIds: []uint64{o.OrderId}})
			if len(ownPerp) > 0 {
				c.Ev("batch_mixing_own_and_foreign_ids")
				msgs = append(msgs, &tstypes.MsgCancelPerpetualOrders{OwnerAddress: att.S(), OrderIds: []uint64{ownPerp[0], o.OrderId}}, &tstypes.MsgCancelPerpetualOrders{OwnerAddress: att.S(), OrderIds: []uint64{o.OrderId, ownPerp[0]}})
			}
			break
		}
	}
	for _, m := range a.PerpetualKeeper.GetAllMTPs(ctx) {
		if m.Address != att.S() {
			msgs = append(msgs, &perptypes.MsgClose{Creator: att.S(), Id: m.Id, Amount: m.Custody}, &perptypes.MsgUpdateStopLoss{Creator: att.S(), Id: m.Id, Price: chain.Dec("0.0001")}, &perptypes.MsgUpdateTakeProfitPrice{Creator: att.S(), Id: m.Id, Price: m.TakeProfitPrice})
			break
		}
	}
	for _, p := range a.LeveragelpKeeper.GetAllPositions(ctx) {
		if p.Address != att.S() {
			msgs = append(msgs, &lptypes.MsgClose{Creator: att.S(), Id: p.Id, LpAmount: p.LeveragedLpAmount}, &lptypes.MsgUpdateStopLoss{Creator: att.S(), Position: p.Id, Price: chain.Dec("100")}, &lptypes.MsgClaimRewards{Sender: att.S(), Ids: []uint64{p.Id}})
			break
		}
	}
	pr := &ownerProbe{att: att.S()}
	w.AddProbe(pr)
	for _, m := range msgs {
		if w.Dead {
			return
		}
		pr.pre, pr.post, pr.done = "", "", false
		b := w.RunBlock(5, w.FeedTx(), w.Tx(att, m))
		if w.Dead {
			return
		}
		t := b.Txs[len(b.Txs)-1]
		c.Ev("owner_scoped_attempts")
		if t.OK() {
			c.Ev("owner_scoped_accepted")
		}
		st.EvalCase(fmt.Sprintf("owner|%s|%d", t.MsgType(), w.Height))
		// a failed tx is rolled back as a whole (the substitution twin checks that nothing leaked);
		// an accepted one must have left every victim's records and balances as they were
		if t.OK() && pr.done && pr.pre != pr.post {
			w.Report(chain.Violation{Property: "C17", Rule: "C17.owner_scoped_msg_rejected", Scope: sc("msg", strings.TrimPrefix(t.MsgType(), "/elys.")), Ops: []string{t.MsgType()}, Relation: "victim_state_changed",
				Detail: fmt.Sprintf("height %d: %s sent by the attacker was accepted and changed the victims' records or balances", w.Height, t.MsgType())})
		}
	}
	pr.att = ""
}

type ownerProbe struct {
	att       string
	pre, post string
	done      bool
}

func (p *ownerProbe) PreMsg(w *chain.World, ctx sdk.Context, tx *chain.TxRecord, msgIdx int, msg sdk.Msg, typeURL string) {
	if tx != nil && p.att != "" && tx.Signer.S() == p.att {
		p.pre = victimStateCtx(w, ctx, p.att)
	}
}

func (p *ownerProbe) PostTx(w *chain.World, ctx sdk.Context, tx *chain.TxRecord, success bool) {
	if tx != nil && p.att != "" && tx.Signer.S() == p.att && success {
		p.post = victimStateCtx(w, ctx, p.att)
		p.done = true
	}
}

// victimState renders every order, position, MTP, commitment and balance not belonging to att.
func victimStateCtx(w *chain.World, ctx sdk.Context, att string) string {
	a := w.App
	var sb strings.Builder
	for _, o := range a.TradeshieldKeeper.GetAllPendingSpotOrder(ctx) {
		if o.OwnerAddress != att {
			sb.WriteString(o.String())
		}
	}
	for _, o := range a.TradeshieldKeeper.GetAllPendingPerpetualOrder(ctx) {
		if o.OwnerAddress != att {
			sb.WriteString(o.String())
		}
	}
	for _, m := range a.PerpetualKeeper.GetAllMTPs(ctx) {
		if m.Address != att {
			sb.WriteString(fmt.Sprintf("%d/%s/%s/%s/%s/%s;", m.Id, m.Liabilities, m.Collateral, m.StopLossPrice, m.TakeProfitPrice, m.Address))
		}
	}
	for _, p := range a.LeveragelpKeeper.GetAllPositions(ctx) {
		if p.Address != att {
			sb.WriteString(fmt.Sprintf("%d/%s/%s/%s;", p.Id, p.LeveragedLpAmount, p.Liabilities, p.StopLossPrice))
		}
	}
	for _, ac := range w.All {
		if ac.S() == att || ac == w.Feeder {
			continue
		}
		sb.WriteString(a.BankKeeper.GetAllBalances(ctx, ac.Addr).String())
		cm := a.CommitmentKeeper.GetCommitments(ctx, ac.Addr)
		sb.WriteString(cm.Claimed.String())
	}
	return sb.String()
}
