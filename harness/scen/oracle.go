package scen

import (
	"fmt"
	"math/rand"

	sdk "github.com/cosmos/cosmos-sdk/types"
	oracletypes "github.com/elys-network/elys/x/oracle/types"

	"verifharness/chain"
	"verifharness/mon"
	"verifharness/run"
)

// oracle-names: adversarial (asset, source) name sets fed by several feeders; lookups at every
// block and before every price-consuming message; feeder deactivation / removal / re-adding; feeds
// from non-feeders; expiry by time and by height with partial outages; governance changing the
// expiry parameters.
func init() {
	run.Register("oracle-names", func(c *run.Ctx) {
		r := rand.New(rand.NewSource(c.Job.Sub(5)))
		exp := []uint64{40, 15, 200}[c.Job.Index%3]
		life := []uint64{8, 30, 4}[(c.Job.Index/3)%3]
		w := chain.NewWorld(chain.Config{NUsers: 8, Probes: true, ExtraFeeders: 2, PriceExpiry: exp, LifeTimeBlock: life})
		c.Attach(w)
		var m16 *mon.C16
		for _, m := range c.Mons {
			if x, ok := m.(*mon.C16); ok {
				m16 = x
			}
		}
		assets := []string{"ATOM", "ATOMX", "ATOMelys", "ELYS", "USDC", "ATOMband", "ELYSelys", "ATOMe"}
		sources := []string{"elys", "band", "x", "elysx", "a", "zz", "lys", "elys/", "bandelys"}
		if c.Job.Index%3 == 2 {
			// names whose concatenation asset+source coincides with another pair
			assets = append(assets, "ATO", "ELY")
			sources = append(sources, "Melys", "Selys", "lysx")
			c.Ev("colliding_name_set")
		}
		if m16 != nil {
			m16.Names = append([]string{"BTC", "ATOMel"}, assets...)
			m16.Denoms = []string{"uusdc", "uatom", "uelys", "uatomx", "unknown"}
		}
		u := w.Users
		// asset infos for two more denoms whose display names are prefix-related
		w.RunBlock(5, w.FeedTx(), w.Tx(u[0], &oracletypes.MsgCreateAssetInfo{Creator: u[0].S(), Denom: "uatomx", Display: "ATOMX", BandTicker: "ATOMX", ElysTicker: "ATOMX", Decimal: 18}))
		v := NewVariant(c)
		v.Prologue(w)
		g := v.Gen(w, c, MixAll)
		feeders := w.Feeders
		n := c.N(150, 400)
		for i := 0; i < n && !w.Dead; i++ {
			txs := []*chain.TxRecord{}
			// default feeder keeps the three real assets alive except during partial outages
			w.Silent = map[string]bool{}
			if (i/25)%4 == 3 {
				w.Silent["ATOM"] = true
			}
			if (i/40)%5 == 4 {
				w.Silent = map[string]bool{"ATOM": true, "USDC": true, "ELYS": true}
			}
			if r.Intn(10) != 0 {
				txs = append(txs, w.FeedTx())
			}
			for _, f := range feeders[1:] {
				if r.Intn(3) == 0 {
					continue
				}
				k := 1 + r.Intn(4)
				fps := []oracletypes.FeedPrice{}
				for j := 0; j < k; j++ {
					fps = append(fps, oracletypes.FeedPrice{Asset: assets[r.Intn(len(assets))], Source: sources[r.Intn(len(sources))], Price: chain.DecF(0.5 + r.Float64()*20)})
				}
				if r.Intn(4) == 0 {
					txs = append(txs, w.Tx(f, &oracletypes.MsgFeedPrice{Provider: f.S(), FeedPrice: fps[0]}))
				} else {
					txs = append(txs, w.Tx(f, &oracletypes.MsgFeedMultiplePrices{Creator: f.S(), FeedPrices: fps}))
				}
			}
			// non-feeders try to write
			if r.Intn(4) == 0 {
				a := u[2+r.Intn(3)]
				txs = append(txs, w.Tx(a, &oracletypes.MsgFeedPrice{Provider: a.S(), FeedPrice: oracletypes.FeedPrice{Asset: "ATOM", Source: "elys", Price: chain.DecF(1000)}}))
				c.Ev("non_feeder_attempt")
			}
			// feeder lifecycle
			switch r.Intn(25) {
			case 0:
				f := feeders[1+r.Intn(len(feeders)-1)]
				txs = append(txs, w.Tx(f, &oracletypes.MsgSetPriceFeeder{Feeder: f.S(), IsActive: false}))
			case 1:
				f := feeders[1+r.Intn(len(feeders)-1)]
				txs = append(txs, w.Tx(f, &oracletypes.MsgSetPriceFeeder{Feeder: f.S(), IsActive: true}))
			case 2:
				f := feeders[len(feeders)-1]
				txs = append(txs, w.Tx(f, &oracletypes.MsgDeletePriceFeeder{Feeder: f.S()}))
			case 3:
				a := u[5]
				txs = append(txs, w.Tx(a, &oracletypes.MsgSetPriceFeeder{Feeder: a.S(), IsActive: true}))
			}
			// price consumers in the same block (their pre-message probes look prices up mid-block)
			seen := map[string]bool{}
			for _, t := range txs {
				if t != nil {
					seen[t.Signer.S()] = true
				}
			}
			for _, t := range g.Block() {
				if !seen[t.Signer.S()] {
					txs = append(txs, t)
				}
			}
			dt := int64(5)
			switch {
			case r.Intn(20) == 0:
				dt = int64(exp) + 1
			case r.Intn(30) == 0:
				dt = 4000
			}
			g.WalkPrices()
			w.RunBlock(dt, txs...)
			if i == n/2 {
				// governance re-adds the deleted feeder and changes the expiry parameters
				p := w.App.OracleKeeper.GetParams(w.ReadCtx())
				p.PriceExpiryTime, p.LifeTimeInBlocks = exp*2, life+3
				last := feeders[len(feeders)-1].S()
				// the removal list names accounts that are not feeders (never were / resigned) before and
				// after the one that is
				rm := []string{u[7].S(), feeders[1].S(), u[4].S()}
				if m16 != nil {
					m16.PendingGov([]string{last, u[6].S()}, rm)
				}
				if w.GovExec("oracle", &oracletypes.MsgAddPriceFeeders{Authority: w.Gov, Feeders: []string{last, u[6].S()}}, &oracletypes.MsgRemovePriceFeeders{Authority: w.Gov, Feeders: rm}, &oracletypes.MsgUpdateParams{Authority: w.Gov, Params: p}) {
					c.Ev("gov_feeder_change")
				}
			}
		}
		_ = fmt.Sprint
		_ = sdk.AccAddress{}
	})
}
