package scen

import (
	perptypes "github.com/elys-network/elys/x/perpetual/types"
	tstypes "github.com/elys-network/elys/x/tradeshield/types"

	"verifharness/chain"
	"verifharness/gen"
	"verifharness/run"
)

var MixOrders = gen.Mix{"ordSpot": 14, "ordPerp": 12, "ordUpdate": 8, "ordCancel": 8, "ordExec": 22, "swapIn1": 8, "swapOut1": 3, "perpOpen": 5, "perpClose": 4, "perpBot": 2, "joinSingle": 2, "exit": 2}

// orders: every order type with trigger prices around the price path; updates and cancels by
// owners and non-owners; execution requests from arbitrary senders naming arbitrary / repeated ids
// while not triggered and after the price crossed the trigger; executions made to fail for natural
// reasons (leverage cap lowered / safety factor raised by governance, an existing same-asset
// position, expired prices), interleaved with oracle and pool price moves.
func init() {
	run.Register("orders", func(c *run.Ctx) {
		v := NewVariant(c)
		w := chain.NewWorld(chain.Config{NUsers: 14, Probes: true, PriceExpiry: 60, LifeTimeBlock: 12})
		c.Attach(w)
		w.Prologue(chain.PrologueCfg{Scale: v.Scale * 10, Pool3: true, W2A: v.W2A, W2B: v.W2B, Fee1: v.Fee1, Fee2: v.Fee2})
		g := v.Gen(w, c, MixOrders)
		g.Pool3 = true
		g.MaxTx = 8
		g.Hostile = 0.3
		g.Walk = 0.08
		n := c.N(160, 450)
		seg := n / 4
		g.Free(seg, nil)
		// governance lowers the perpetual leverage cap and raises the safety factor: pending
		// limit-open orders with high leverage now fail when executed (before / after the borrow)
		pp := w.App.PerpetualKeeper.GetParams(w.ReadCtx())
		pp.LeverageMax = chain.Dec("4")
		pp.SafetyFactor = chain.Dec("1.2")
		if w.GovExec("perp caps", &perptypes.MsgUpdateParams{Authority: w.Gov, Params: &pp}) {
			c.Ev("leverage_cap_lowered")
		}
		// the price moves through most triggers
		w.Prices["ATOM"] = w.Prices["ATOM"].Mul(chain.Dec("0.85"))
		g.Free(seg, nil)
		// oracle outage: executions fail for lack of a price
		w.Silent = map[string]bool{"ATOM": true}
		g.Free(20, func(int) int64 { return 8 })
		w.Silent = map[string]bool{}
		// the feed of the base currency, then of the third asset, lapses while the others stay live:
		// the market rate of orders quoted in / against them cannot be formed
		for _, a := range []string{"USDC", "ELYS"} {
			g.Free(4, nil)
			w.Silent = map[string]bool{a: true}
			g.Free(16, func(int) int64 { return 8 })
			w.Silent = map[string]bool{}
			c.Ev("feed_lapsed/" + a)
		}
		w.Prices["ATOM"] = w.Prices["ATOM"].Mul(chain.Dec("1.3"))
		g.Free(seg, nil)
		// everybody executes everything, then owners cancel what is left
		for _, ac := range w.Users[:4] {
			ctx := w.ReadCtx()
			if m := g.Op("ordExec", ac, ctx); m != nil {
				w.Step(5, w.Tx(ac, m))
			}
		}
		for _, o := range w.App.TradeshieldKeeper.GetAllPendingSpotOrder(w.ReadCtx()) {
			if ac := w.ActorByAddr(o.OwnerAddress); ac != nil {
				w.Step(5, w.Tx(ac, &tstypes.MsgCancelSpotOrder{OwnerAddress: ac.S(), OrderId: o.OrderId}))
			}
		}
		for _, o := range w.App.TradeshieldKeeper.GetAllPendingPerpetualOrder(w.ReadCtx()) {
			if ac := w.ActorByAddr(o.OwnerAddress); ac != nil {
				w.Step(5, w.Tx(ac, &tstypes.MsgCancelPerpetualOrder{OwnerAddress: ac.S(), OrderId: o.OrderId}))
			}
		}
		if c.Job.Index%3 == 1 && !w.Dead {
			NewChaos(c, w, g).Run(n-3*seg-20, nil)
		} else {
			g.Free(n-3*seg-20, nil)
		}
		c.Require(w.OkCount["/elys.tradeshield.MsgExecuteOrders"] > 10, "execution requests accepted")
		c.Require(w.OkCount["/elys.tradeshield.MsgCreateSpotOrder"] > 3 && w.OkCount["/elys.tradeshield.MsgCreatePerpetualOpenOrder"] > 2, "orders of both kinds created")
	})
}
