package scen

import (
	"cosmossdk.io/math"
	commitmenttypes "github.com/elys-network/elys/x/commitment/types"
	mctypes "github.com/elys-network/elys/x/masterchef/types"

	"verifharness/chain"
	"verifharness/gen"
	"verifharness/run"
)

var MixCommit = gen.Mix{"vestLiquid": 4, "commitClaimed": 8, "uncommit": 6, "vest": 10, "claimVesting": 12, "cancelVest": 8, "vestNow": 4, "stake": 4, "unstake": 3, "delegate": 3, "undelegate": 3, "estWithdraw": 3,
	"mcClaim": 4, "joinAll": 4, "joinSingle": 3, "exit": 5, "bond": 4, "unbond": 4, "swapIn1": 6, "levOpen": 3, "levClose": 3, "levBot": 1}

// commit-life: the commitment ledger under every caller: Eden/EdenB obtained from genesis grants and
// from real rewards, commit / uncommit / vest / claim at adjacent heights / partial cancel / vest-now,
// governance changing vesting parameters mid-schedule, delegations (EdenB burn), LP and vault shares.
func init() {
	run.Register("commit-life", func(c *run.Ctx) {
		v := NewVariant(c)
		nb := []int64{40, 100, 17, 60}[c.Job.Index%4]
		w := chain.NewWorld(chain.Config{NUsers: 10, Probes: true, Inflation: 1e14, VestBlocks: nb, EdenClaimed: 5_000_000_000, EnableVestNow: c.Job.Index%2 == 0, VestNowFactor: []int64{90, 3, 7}[c.Job.Index%3], MaxVestings: []int64{3, 10000, 5}[c.Job.Index%3]})
		c.Attach(w)
		v.Prologue(w)
		u := w.Users
		w.GovExec("eden on", &mctypes.MsgTogglePoolEdenRewards{Authority: w.Gov, PoolId: 1, Enable: true}, &mctypes.MsgTogglePoolEdenRewards{Authority: w.Gov, PoolId: 2, Enable: true})
		// directed: the claim -> partial cancel -> claim sequence at adjacent heights
		o := u[5]
		w.Step(5, w.Tx(o, &commitmenttypes.MsgVest{Creator: o.S(), Amount: math.NewInt(1000), Denom: "ueden"}))
		for i := int64(0); i < nb/2; i++ {
			w.Step(5)
		}
		w.Step(5, w.Tx(o, &commitmenttypes.MsgClaimVesting{Sender: o.S()}))
		w.Step(5, w.Tx(o, &commitmenttypes.MsgCancelVest{Creator: o.S(), Amount: math.NewInt(400), Denom: "ueden"}))
		w.Step(5, w.Tx(o, &commitmenttypes.MsgClaimVesting{Sender: o.S()}))
		c.Ev("claim_cancel_claim_sequence")
		// liquid vesting of an externally issued asset (uatom -> uatom) next to an Eden vesting of the
		// same account; both released by one claim
		if w.GovExec("liquid vesting", &commitmenttypes.MsgUpdateVestingInfo{Authority: w.Gov, BaseDenom: "uatom", VestingDenom: "uatom", NumBlocks: nb, VestNowFactor: 5, NumMaxVestings: 6}) {
			c.Ev("liquid_vesting_info_added")
			lv := u[6]
			w.Step(5, w.Tx(lv, &commitmenttypes.MsgVestLiquid{Creator: lv.S(), Amount: math.NewInt(123_456_789), Denom: "uatom"}))
			w.Step(5, w.Tx(lv, &commitmenttypes.MsgVest{Creator: lv.S(), Amount: math.NewInt(1_000_000), Denom: "ueden"}))
			for i := 0; i < 3; i++ {
				w.Step(5)
			}
			w.Step(5, w.Tx(lv, &commitmenttypes.MsgClaimVesting{Sender: lv.S()}))
		}
		g := v.Gen(w, c, MixCommit)
		g.FeeProb = 0.3
		n := c.N(200, 600)
		g.Free(n/2, g.StdDt)
		// governance changes the vesting parameters mid-schedule
		if w.GovExec("vesting info", &commitmenttypes.MsgUpdateVestingInfo{Authority: w.Gov, BaseDenom: "ueden", VestingDenom: "uelys", NumBlocks: nb/2 + 1, VestNowFactor: 11, NumMaxVestings: 8},
			&commitmenttypes.MsgUpdateEnableVestNow{Authority: w.Gov, EnableVestNow: true}) {
			c.Ev("vesting_info_changed")
		}
		if c.Job.Index%3 == 1 && !w.Dead {
			NewChaos(c, w, g).Run(n/2, g.StdDt)
		} else {
			g.Free(n/2, g.StdDt)
		}
		// run the schedules out and claim everything
		for i := int64(0); i < nb+2 && !w.Dead; i++ {
			w.Step(5)
		}
		for _, ac := range u {
			w.Step(5, w.Tx(ac, &commitmenttypes.MsgClaimVesting{Sender: ac.S()}))
		}
	})
}

// vest-edge: directed vesting lifecycles at the parameter edges validation allows.
func init() {
	run.Register("vest-edge", func(c *run.Ctx) {
		nb := []int64{1, 2, 7, 30}[c.Job.Index%4]
		// every other instance: 18-decimal magnitudes (total x elapsed blocks beyond 2^63)
		eden := int64(1_000_000_000)
		if c.Job.Index%2 == 1 {
			eden = 4_000_000_000_000_000_000
		}
		w := chain.NewWorld(chain.Config{NUsers: 6, Probes: true, VestBlocks: nb, EdenClaimed: eden, EnableVestNow: true, VestNowFactor: []int64{1, 2, 1000000007, 90}[c.Job.Index%4], MaxVestings: 4})
		c.Attach(w)
		u := w.Users
		vest := func(a *chain.Actor, x int64) *chain.TxRecord {
			return w.Tx(a, &commitmenttypes.MsgVest{Creator: a.S(), Amount: math.NewInt(x), Denom: "ueden"})
		}
		claim := func(a *chain.Actor) *chain.TxRecord { return w.Tx(a, &commitmenttypes.MsgClaimVesting{Sender: a.S()}) }
		cancel := func(a *chain.Actor, x int64) *chain.TxRecord {
			return w.Tx(a, &commitmenttypes.MsgCancelVest{Creator: a.S(), Amount: math.NewInt(x), Denom: "ueden"})
		}
		now := func(a *chain.Actor, x int64) *chain.TxRecord {
			return w.Tx(a, &commitmenttypes.MsgVestNow{Creator: a.S(), Amount: math.NewInt(x), Denom: "ueden"})
		}
		// up to the maximum number of concurrent vestings, one more must fail
		for i := 0; i < 5; i++ {
			w.Step(5, vest(u[0], int64(1000+i)), vest(u[1], 1), vest(u[2], 999_999))
		}
		w.Step(5, claim(u[0]), claim(u[1]), claim(u[2]), now(u[3], 1), now(u[4], 999_999_999))
		w.Step(5, cancel(u[0], 1), cancel(u[2], 500_000), claim(u[1]))
		w.Step(5, claim(u[0]), claim(u[2]))
		for i := int64(0); i < nb+1; i++ {
			w.Step(5, claim(u[int(i)%3]))
		}
		// governance: schedule length 0 (accepted by validation), then vest and claim
		if w.GovExec("numblocks 0", &commitmenttypes.MsgUpdateVestingInfo{Authority: w.Gov, BaseDenom: "ueden", VestingDenom: "uelys", NumBlocks: 0, VestNowFactor: 3, NumMaxVestings: 6}) {
			c.Ev("num_blocks_0_accepted")
			w.Step(5, vest(u[0], 5000), vest(u[5], 77))
			w.Step(5, claim(u[0]), claim(u[5]))
			w.Step(5, cancel(u[0], 100))
			w.Step(5, claim(u[0]))
		}
		if w.GovExec("numblocks 3", &commitmenttypes.MsgUpdateVestingInfo{Authority: w.Gov, BaseDenom: "ueden", VestingDenom: "uelys", NumBlocks: 3, VestNowFactor: 3, NumMaxVestings: 6}) {
			w.Step(5, vest(u[0], 1000), vest(u[5], 10))
			w.Step(5, claim(u[0]), cancel(u[5], 9))
			w.Step(5, cancel(u[0], 600), claim(u[5]))
			for i := 0; i < 4; i++ {
				w.Step(5, claim(u[0]), claim(u[5]))
			}
		}
		// large totals followed to the end of a 60-block schedule, claimed at every second block
		if eden > 1_000_000_000_000 && !w.Dead && w.GovExec("numblocks 60", &commitmenttypes.MsgUpdateVestingInfo{Authority: w.Gov, BaseDenom: "ueden", VestingDenom: "uelys", NumBlocks: 60, VestNowFactor: 3, NumMaxVestings: 6}) {
			for _, a := range []*chain.Actor{u[1], u[2]} {
				cm := w.App.CommitmentKeeper.GetCommitments(w.ReadCtx(), a.Addr)
				have := cm.GetClaimedForDenom("ueden")
				if have.IsPositive() {
					w.Step(5, w.Tx(a, &commitmenttypes.MsgVest{Creator: a.S(), Amount: have.QuoRaw(2), Denom: "ueden"}))
					c.Ev("large_total_vested")
				}
			}
			for i := 0; i < 64 && !w.Dead; i++ {
				if i%2 == 0 {
					w.Step(5, claim(u[1]), claim(u[2]))
				} else {
					w.Step(5)
				}
			}
		}
		// the parameters change while entries are running: an entry keeps the schedule it was created
		// with through later claims and cancels (shorter, zero and longer new lengths)
		for k, nn := range []int64{12, 0, 400} {
			if w.Dead || !w.GovExec("numblocks 60", &commitmenttypes.MsgUpdateVestingInfo{Authority: w.Gov, BaseDenom: "ueden", VestingDenom: "uelys", NumBlocks: 60, VestNowFactor: 3, NumMaxVestings: 6}) {
				break
			}
			a, b := u[3], u[4]
			w.Step(5, vest(a, 100_000+int64(k)), vest(b, 7_777))
			w.Step(5)
			w.Step(5, claim(a))
			if !w.GovExec("numblocks changed under running entries", &commitmenttypes.MsgUpdateVestingInfo{Authority: w.Gov, BaseDenom: "ueden", VestingDenom: "uelys", NumBlocks: nn, VestNowFactor: 3, NumMaxVestings: 6}) {
				break
			}
			c.Ev("num_blocks_changed_under_running_entries")
			w.Step(5, claim(a), cancel(b, 1_000))
			w.Step(5, cancel(a, 10_000), claim(b))
			for i := 0; i < 4; i++ {
				w.Step(5, claim(a), claim(b))
			}
			w.Step(5, cancel(a, 1), cancel(b, 1))
			for i := 0; i < 62 && !w.Dead; i++ {
				if i%9 == 0 {
					w.Step(5, claim(a), claim(b))
				} else {
					w.Step(5)
				}
			}
			w.Step(5, claim(a), claim(b))
		}
	})
}
