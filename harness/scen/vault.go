package scen

import (
	"fmt"
	"math/big"
	"math/rand"

	"cosmossdk.io/math"
	aptypes "github.com/elys-network/elys/x/assetprofile/types"
	lptypes "github.com/elys-network/elys/x/leveragelp/types"
	sstypes "github.com/elys-network/elys/x/stablestake/types"

	"verifharness/chain"
	"verifharness/gen"
	"verifharness/run"
)

var MixVault = gen.Mix{"bond": 16, "unbond": 14, "levOpen": 14, "levClose": 10, "levStop": 2, "levBot": 6, "levClaim": 1, "swapIn1": 8, "joinSingle": 3, "exit": 3, "perpOpen": 3, "perpClose": 2}

// vault: lenders bond; leveraged opens up to the 90 % cap (attempts across it); a day passes
// (lazy accrual makes the rate non-integral); an observed lender bonds / unbonds a dust grid and
// amounts around k*rate +- 1/2; add-collateral / partial / full closes; a price crash and
// liquidations with a shortfall; unbond attempts beyond the cash; governance changes the interest
// rate parameters; then vault-heavy free traffic.
func init() {
	run.Register("vault", func(c *run.Ctx) {
		v := NewVariant(c)
		w := v.World(c, true, 12)
		w.Prologue(chain.PrologueCfg{Scale: v.Scale, W2A: v.W2A, W2B: v.W2B, Fee1: v.Fee1, Fee2: v.Fee2, Bond: v.Scale / 20})
		v.Sweep(w)
		u := w.Users
		S := v.Scale
		open := func(a *chain.Actor, col int64, lev string) *chain.TxRecord {
			return w.Tx(a, &lptypes.MsgOpen{Creator: a.S(), CollateralAsset: "uusdc", CollateralAmount: math.NewInt(col), AmmPoolId: 1, Leverage: chain.Dec(lev), StopLossPrice: math.LegacyZeroDec()})
		}
		// leveragelp has its own, lower front-door limit (stablestake MaxLeverageRatio, 0.7 by default, on
		// borrowed + whole position size); two jobs out of three lift it so that the vault's own 90 % cap
		// in Borrow is the limit that binds
		if c.Job.Index%3 != 2 {
			sp0 := w.App.StablestakeKeeper.GetParams(w.ReadCtx())
			sp0.MaxLeverageRatio = chain.Dec("1000")
			if w.GovExec("front-door ratio lifted", &sstypes.MsgUpdateParams{Authority: w.Gov, Params: &sp0}) {
				c.Ev("front_door_ratio_lifted")
			}
		}
		// borrow up to and across the 90 % cap: the vault holds S/20 * 1.6
		vault := S / 20 * 8 / 5
		for i, frac := range []int64{30, 30, 20, 8, 5, 3, 1} {
			col := vault * frac / 100 / 4 // leverage 5 borrows 4x the collateral
			b := w.Step(5, open(u[3+i%4], col, "5"))
			if !w.Dead {
				if b.Txs[1].OK() {
					c.Ev("borrow_accepted")
				} else {
					c.Ev("borrow_refused")
				}
			}
		}
		// boundary probes: borrows that would end just above, exactly at and just below the cap, computed
		// from the state the handler will see (leverage 2 borrows exactly the collateral)
		for i, over := range []int64{9000, 5000, 2000, 100, 1, 0} { // over the headroom, in 1e-6 of the vault's value, then 1 unit, then exact
			if w.Dead {
				break
			}
			ctx := w.ReadCtx()
			p := w.App.StablestakeKeeper.GetParams(ctx)
			cash := w.App.BankKeeper.GetBalance(ctx, w.App.AccountKeeper.GetModuleAddress(sstypes.ModuleName), p.DepositDenom).Amount
			head := p.TotalValue.MulRaw(9).QuoRaw(10).Sub(p.TotalValue.Sub(cash))
			if !head.IsPositive() {
				c.Ev("no_headroom_for_boundary_probe")
				break
			}
			amt := head
			switch {
			case over > 1:
				amt = head.Add(p.TotalValue.MulRaw(over).QuoRaw(1_000_000))
			case over == 1:
				amt = head.AddRaw(1)
			}
			b := w.Step(5, open(u[3+i%4], amt.Int64(), "2"))
			if !w.Dead {
				if b.Txs[1].OK() {
					c.Ev("boundary_borrow_accepted")
				} else {
					c.Ev("boundary_borrow_refused")
				}
			}
		}
		w.Step(86400) // a day of lazy accrual
		w.Step(5, w.Tx(u[3], &lptypes.MsgClaimRewards{Sender: u[3].S(), Ids: []uint64{1}}))
		// observed lender: dust grid and banker's-rounding boundaries around k*rate
		ob := u[8]
		r := rand.New(rand.NewSource(c.Job.Sub(11)))
		for k := 0; k < c.N(24, 60) && !w.Dead; k++ {
			p := w.App.StablestakeKeeper.GetParams(w.ReadCtx())
			sup := w.App.BankKeeper.GetSupply(w.ReadCtx(), "stablestake/share").Amount
			amt := int64(1 + k%7)
			if k%3 == 1 && sup.IsPositive() {
				// k * rate +- 1/2
				kk := int64(1 + r.Intn(50))
				x := new(big.Int).Quo(new(big.Int).Mul(p.TotalValue.BigInt(), big.NewInt(2*kk+int64(r.Intn(3))-1)), new(big.Int).Mul(sup.BigInt(), big.NewInt(2)))
				if x.IsInt64() && x.Int64() > 0 {
					amt = x.Int64()
				}
			}
			if k%5 == 4 {
				amt = S / int64(100+r.Intn(1000))
			}
			before := w.App.BankKeeper.GetBalance(w.ReadCtx(), ob.Addr, "uusdc").Amount
			cm := w.App.CommitmentKeeper.GetCommitments(w.ReadCtx(), ob.Addr)
			s0 := cm.GetCommittedAmountForDenom("stablestake/share")
			// "immediately": bond and unbond in the same block (no interest accrues in between); the
			// share amount the bond will mint is the fair conversion the chain itself will do, so the
			// unbond names round(amt / rate) computed here from the state both messages will see
			if !sup.IsPositive() {
				continue
			}
			got := math.LegacyNewDec(amt).Quo(math.LegacyNewDecFromInt(p.TotalValue).Quo(math.LegacyNewDecFromInt(sup))).Mul(chain.Dec("0.99999")).TruncateInt()
			if !got.IsPositive() {
				c.Ev("bond_would_mint_zero_shares")
				continue
			}
			_ = s0
			b := w.Step(5, w.Tx(ob, &sstypes.MsgBond{Creator: ob.S(), Amount: math.NewInt(amt)}), w.Tx(ob, &sstypes.MsgUnbond{Creator: ob.S(), Amount: got}))
			if w.Dead || !b.Txs[1].OK() || !b.Txs[2].OK() {
				c.Ev("round_trip_tx_rejected")
				continue
			}
			c.Ev("bond_unbond_round_trips")
			_ = before
		}
		// add collateral / partial / full closes
		for _, a := range u[3:7] {
			ps, _, _ := w.App.LeveragelpKeeper.GetPositionsForAddress(w.ReadCtx(), a.Addr, nil)
			if len(ps) == 0 {
				continue
			}
			p := ps[0]
			w.Step(3700, open(a, S/20000, "1.5"))
			w.Step(5, w.Tx(a, &lptypes.MsgClose{Creator: a.S(), Id: p.Id, LpAmount: p.LeveragedLpAmount.QuoRaw(3)}))
		}
		// governance: interest parameters
		sp := w.App.StablestakeKeeper.GetParams(w.ReadCtx())
		sp.InterestRateMax, sp.InterestRateMin, sp.InterestRate, sp.InterestRateIncrease = chain.Dec("0.9"), chain.Dec("0.4"), chain.Dec("0.5"), chain.Dec("0.05")
		// the interest-rate epoch gets longer than one block in two instances of three
		sp.EpochLength = []int64{1, 5, 3}[c.Job.Index%3]
		if w.GovExec("interest", &sstypes.MsgUpdateParams{Authority: w.Gov, Params: &sp}) {
			c.Ev("interest_params_changed")
		}
		g := v.Gen(w, c, MixVault)
		g.MaxTx = 8
		n := c.N(120, 400)
		if c.Job.Index%3 == 1 && !w.Dead {
			NewChaos(c, w, g).Run(n/2, g.StdDt)
		} else {
			g.Free(n/2, g.StdDt)
		}
		// governance rewrites the registry entry of the vault's share token (instances in which it owns
		// the entry): committing disabled — a deposit cannot be booked and must be refused whole —
		// then withdrawing disabled, then both restored; lenders bond and unbond through each state
		if e, found := w.App.AssetprofileKeeper.GetEntry(w.ReadCtx(), "stablestake/share"); found && e.Authority == w.Gov && !w.Dead {
			for _, st := range [][2]bool{{false, true}, {true, false}, {e.CommitEnabled, e.WithdrawEnabled}} {
				m := &aptypes.MsgUpdateEntry{Authority: w.Gov, BaseDenom: e.BaseDenom, Denom: e.Denom, Decimals: e.Decimals, DisplayName: e.DisplayName, CommitEnabled: st[0], WithdrawEnabled: st[1]}
				if w.GovExec("share entry", m) {
					c.Ev(fmt.Sprintf("share_entry_rewritten/commit=%v/withdraw=%v", st[0], st[1]))
				}
				w.Step(5, w.Tx(u[3], &sstypes.MsgBond{Creator: u[3].S(), Amount: math.NewInt(S/300 + 7)}), w.Tx(u[4], &sstypes.MsgBond{Creator: u[4].S(), Amount: math.NewInt(1)}))
				cm := w.App.CommitmentKeeper.GetCommitments(w.ReadCtx(), u[1].Addr)
				if have := cm.GetCommittedAmountForDenom("stablestake/share"); have.IsPositive() {
					w.Step(5, w.Tx(u[1], &sstypes.MsgUnbond{Creator: u[1].S(), Amount: have.QuoRaw(50).AddRaw(1)}))
				}
				g.Free(3, nil)
			}
		}
		// crash: liquidations with a shortfall; then lenders try to withdraw more than the cash
		w.Prices["ATOM"] = w.Prices["ATOM"].Mul(chain.Dec("0.45"))
		g.Free(10, nil)
		for _, a := range []*chain.Actor{u[1], u[2]} {
			cm := w.App.CommitmentKeeper.GetCommitments(w.ReadCtx(), a.Addr)
			have := cm.GetCommittedAmountForDenom("stablestake/share")
			if have.IsPositive() {
				w.Step(5, w.Tx(a, &sstypes.MsgUnbond{Creator: a.S(), Amount: have}))
			}
		}
		g.Free(n/2, func(i int) int64 {
			if i%20 == 19 {
				return 86400 * 2
			}
			return g.StdDt(i)
		})
	})
}
