package scen

import (
	"fmt"
	aptypes "github.com/elys-network/elys/x/assetprofile/types"
	"reflect"

	"cosmossdk.io/math"
	sdk "github.com/cosmos/cosmos-sdk/types"
	ammtypes "github.com/elys-network/elys/x/amm/types"
	commitmenttypes "github.com/elys-network/elys/x/commitment/types"
	estakingtypes "github.com/elys-network/elys/x/estaking/types"
	lptypes "github.com/elys-network/elys/x/leveragelp/types"
	mctypes "github.com/elys-network/elys/x/masterchef/types"
	oracletypes "github.com/elys-network/elys/x/oracle/types"
	parametertypes "github.com/elys-network/elys/x/parameter/types"
	perptypes "github.com/elys-network/elys/x/perpetual/types"
	sstypes "github.com/elys-network/elys/x/stablestake/types"
	tstypes "github.com/elys-network/elys/x/tradeshield/types"

	"verifharness/chain"
	"verifharness/gen"
	"verifharness/run"
)

// A fault schedule is applied to a rich base state; traffic continues around it.
type faultSchedule struct {
	name string
	run  func(f *faultCtx)
}

type faultCtx struct {
	c *run.Ctx
	w *chain.World
	g interface {
		Free(n int, dt func(int) int64)
		StdDt(i int) int64
	}
	n int
}

func d(s string) math.LegacyDec { return chain.Dec(s) }

// ParamEdges enumerates governance proposals that set every module's parameters to boundary
// values their own Validate() accepts. Each is built from the parameters currently in state.
func ParamEdges(w *chain.World) map[string]func() []sdk.Msg {
	a := w.App
	gov := w.Gov
	out := map[string]func() []sdk.Msg{}
	mc := func(f func(p *mctypes.Params)) func() []sdk.Msg {
		return func() []sdk.Msg {
			p := a.MasterchefKeeper.GetParams(w.ReadCtx())
			f(&p)
			return []sdk.Msg{&mctypes.MsgUpdateParams{Authority: gov, Params: p}}
		}
	}
	out["masterchef.portions_0_0"] = mc(func(p *mctypes.Params) { p.RewardPortionForLps, p.RewardPortionForStakers = d("0"), d("0") })
	out["masterchef.portions_1_0"] = mc(func(p *mctypes.Params) { p.RewardPortionForLps, p.RewardPortionForStakers = d("1"), d("0") })
	out["masterchef.portions_0_1"] = mc(func(p *mctypes.Params) { p.RewardPortionForLps, p.RewardPortionForStakers = d("0"), d("1") })
	out["masterchef.portions_half"] = mc(func(p *mctypes.Params) { p.RewardPortionForLps, p.RewardPortionForStakers = d("0.5"), d("0.5") })
	out["masterchef.max_eden_apr_0"] = mc(func(p *mctypes.Params) { p.MaxEdenRewardAprLps = d("0") })
	out["masterchef.max_eden_apr_tiny"] = mc(func(p *mctypes.Params) { p.MaxEdenRewardAprLps = d("0.000000000000000001") })
	amm := func(f func(p *ammtypes.Params)) func() []sdk.Msg {
		return func() []sdk.Msg {
			p := a.AmmKeeper.GetParams(w.ReadCtx())
			f(&p)
			return []sdk.Msg{&ammtypes.MsgUpdateParams{Authority: gov, Params: &p}}
		}
	}
	out["amm.weight_breaking_zero"] = amm(func(p *ammtypes.Params) {
		p.WeightBreakingFeeExponent, p.WeightBreakingFeeMultiplier, p.WeightBreakingFeePortion, p.WeightRecoveryFeePortion, p.ThresholdWeightDifference = d("0"), d("0"), d("0"), d("0"), d("0")
	})
	out["amm.weight_breaking_large"] = amm(func(p *ammtypes.Params) {
		p.WeightBreakingFeeExponent, p.WeightBreakingFeeMultiplier, p.WeightBreakingFeePortion, p.WeightRecoveryFeePortion, p.ThresholdWeightDifference = d("8"), d("5"), d("1"), d("1"), d("1")
	})
	perp := func(f func(p *perptypes.Params)) func() []sdk.Msg {
		return func() []sdk.Msg {
			p := a.PerpetualKeeper.GetParams(w.ReadCtx())
			f(&p)
			return []sdk.Msg{&perptypes.MsgUpdateParams{Authority: gov, Params: &p}}
		}
	}
	out["perpetual.rates_zero"] = perp(func(p *perptypes.Params) {
		p.BorrowInterestRateMax, p.BorrowInterestRateMin, p.BorrowInterestRateIncrease, p.BorrowInterestRateDecrease, p.FixedFundingRate, p.HealthGainFactor = d("0"), d("0"), d("0"), d("0"), d("0"), d("0")
	})
	out["perpetual.rates_huge"] = perp(func(p *perptypes.Params) {
		p.BorrowInterestRateMax, p.BorrowInterestRateMin, p.BorrowInterestRateIncrease, p.FixedFundingRate = d("100"), d("100"), d("10"), d("50")
	})
	out["perpetual.fees_zero"] = perp(func(p *perptypes.Params) {
		p.PerpetualSwapFee, p.BorrowInterestPaymentFundPercentage, p.WeightBreakingFeeFactor, p.PoolOpenThreshold = d("0"), d("0"), d("0"), d("0")
	})
	out["perpetual.fees_one"] = perp(func(p *perptypes.Params) {
		p.PerpetualSwapFee, p.BorrowInterestPaymentFundPercentage, p.WeightBreakingFeeFactor = d("1"), d("1"), d("1")
	})
	out["perpetual.safety_zero"] = perp(func(p *perptypes.Params) { p.SafetyFactor = d("0") })
	out["perpetual.safety_high"] = perp(func(p *perptypes.Params) { p.SafetyFactor = d("3") })
	out["perpetual.leverage_max_0"] = perp(func(p *perptypes.Params) { p.LeverageMax = d("0") })
	out["perpetual.take_profit_custody_liabilities"] = perp(func(p *perptypes.Params) {
		p.EnableTakeProfitCustodyLiabilities = !p.EnableTakeProfitCustodyLiabilities
	})
	llp := func(f func(p *lptypes.Params)) func() []sdk.Msg {
		return func() []sdk.Msg {
			p := a.LeveragelpKeeper.GetParams(w.ReadCtx())
			f(&p)
			return []sdk.Msg{&lptypes.MsgUpdateParams{Authority: gov, Params: &p}}
		}
	}
	out["leveragelp.number_per_block_0"] = llp(func(p *lptypes.Params) { p.NumberPerBlock = 0 })
	out["leveragelp.number_per_block_1"] = llp(func(p *lptypes.Params) { p.NumberPerBlock = 1 })
	out["leveragelp.safety_tiny"] = llp(func(p *lptypes.Params) { p.SafetyFactor = d("0.000000000000000001") })
	out["leveragelp.safety_high"] = llp(func(p *lptypes.Params) { p.SafetyFactor = d("5") })
	out["leveragelp.epoch_1_threshold_tiny"] = llp(func(p *lptypes.Params) {
		p.EpochLength, p.PoolOpenThreshold, p.LeverageMax = 1, d("0.000000000000000001"), d("1.000000000000000001")
	})
	ss := func(f func(p *sstypes.Params)) func() []sdk.Msg {
		return func() []sdk.Msg {
			p := a.StablestakeKeeper.GetParams(w.ReadCtx())
			f(&p)
			return []sdk.Msg{&sstypes.MsgUpdateParams{Authority: gov, Params: &p}}
		}
	}
	out["stablestake.rates_zero"] = ss(func(p *sstypes.Params) {
		p.InterestRate, p.InterestRateMax, p.InterestRateMin, p.InterestRateIncrease, p.InterestRateDecrease, p.HealthGainFactor = d("0"), d("0"), d("0"), d("0"), d("0"), d("0")
	})
	out["stablestake.rates_huge"] = ss(func(p *sstypes.Params) {
		p.InterestRate, p.InterestRateMax, p.InterestRateMin, p.InterestRateIncrease = d("500"), d("500"), d("500"), d("100")
	})
	out["stablestake.epoch_0"] = ss(func(p *sstypes.Params) { p.EpochLength = 0 })
	out["stablestake.epoch_1"] = ss(func(p *sstypes.Params) { p.EpochLength = 1 })
	out["stablestake.max_leverage_ratio_0"] = ss(func(p *sstypes.Params) { p.MaxLeverageRatio = d("0") })
	out["stablestake.redemption_0"] = ss(func(p *sstypes.Params) { p.RedemptionRate = d("0") })
	or := func(f func(p *oracletypes.Params)) func() []sdk.Msg {
		return func() []sdk.Msg {
			p := a.OracleKeeper.GetParams(w.ReadCtx())
			f(&p)
			return []sdk.Msg{&oracletypes.MsgUpdateParams{Authority: gov, Params: p}}
		}
	}
	out["oracle.expiry_0"] = or(func(p *oracletypes.Params) { p.PriceExpiryTime = 0 })
	out["oracle.lifetime_0"] = or(func(p *oracletypes.Params) { p.LifeTimeInBlocks = 0 })
	out["oracle.expiry_huge"] = or(func(p *oracletypes.Params) { p.PriceExpiryTime, p.LifeTimeInBlocks = 1<<62, 1<<62 })
	es := func(f func(p *estakingtypes.Params)) func() []sdk.Msg {
		return func() []sdk.Msg {
			p := a.EstakingKeeper.GetParams(w.ReadCtx())
			f(&p)
			return []sdk.Msg{&estakingtypes.MsgUpdateParams{Authority: gov, Params: p}}
		}
	}
	out["estaking.aprs_zero"] = es(func(p *estakingtypes.Params) {
		p.MaxEdenRewardAprStakers, p.EdenBoostApr, p.ProviderStakingRewardsPortion = d("0"), d("0"), d("0")
	})
	out["estaking.provider_portion_1"] = es(func(p *estakingtypes.Params) { p.ProviderStakingRewardsPortion = d("1") })
	out["estaking.provider_portion_2"] = es(func(p *estakingtypes.Params) { p.ProviderStakingRewardsPortion = d("2") })
	out["estaking.boost_huge"] = es(func(p *estakingtypes.Params) { p.EdenBoostApr, p.MaxEdenRewardAprStakers = d("1000000"), d("1000000") })
	ts := func(f func(p *tstypes.Params)) func() []sdk.Msg {
		return func() []sdk.Msg {
			p := a.TradeshieldKeeper.GetParams(w.ReadCtx())
			f(&p)
			return []sdk.Msg{&tstypes.MsgUpdateParams{Authority: gov, Params: &p}}
		}
	}
	out["tradeshield.zero"] = ts(func(p *tstypes.Params) {
		p.RewardPercentage, p.MarginError, p.MinimumDeposit, p.LimitProcessOrder = d("0"), d("0"), math.ZeroInt(), 0
	})
	out["parameter.blocks_per_year_1"] = func() []sdk.Msg {
		return []sdk.Msg{&parametertypes.MsgUpdateTotalBlocksPerYear{Creator: gov, TotalBlocksPerYear: 1}}
	}
	out["parameter.blocks_per_year_huge"] = func() []sdk.Msg {
		return []sdk.Msg{&parametertypes.MsgUpdateTotalBlocksPerYear{Creator: gov, TotalBlocksPerYear: 1 << 62}}
	}
	out["parameter.rewards_data_lifetime_1"] = func() []sdk.Msg {
		return []sdk.Msg{&parametertypes.MsgUpdateRewardsDataLifetime{Creator: gov, RewardsDataLifetime: 1}}
	}
	out["commitment.vesting_num_blocks_0"] = func() []sdk.Msg {
		return []sdk.Msg{&commitmenttypes.MsgUpdateVestingInfo{Authority: gov, BaseDenom: "ueden", VestingDenom: "uelys", NumBlocks: 0, VestNowFactor: 1, NumMaxVestings: 0}}
	}
	out["commitment.vesting_huge"] = func() []sdk.Msg {
		return []sdk.Msg{&commitmenttypes.MsgUpdateVestingInfo{Authority: gov, BaseDenom: "ueden", VestingDenom: "uelys", NumBlocks: 1 << 62, VestNowFactor: 1 << 62, NumMaxVestings: 1 << 62}}
	}
	out["masterchef.multipliers_zero"] = func() []sdk.Msg {
		return []sdk.Msg{&mctypes.MsgUpdatePoolMultipliers{Authority: gov, PoolMultipliers: []mctypes.PoolMultiplier{{PoolId: 1, Multiplier: d("0")}, {PoolId: 2, Multiplier: d("0")}, {PoolId: 32767, Multiplier: d("0")}}}}
	}
	out["masterchef.multipliers_huge"] = func() []sdk.Msg {
		return []sdk.Msg{&mctypes.MsgUpdatePoolMultipliers{Authority: gov, PoolMultipliers: []mctypes.PoolMultiplier{{PoolId: 1, Multiplier: d("1000000000000")}, {PoolId: 2, Multiplier: d("0.000000000000000001")}}}}
	}
	return out
}

func sortedKeys(m map[string]func() []sdk.Msg) []string {
	out := []string{}
	for k := range m {
		out = append(out, k)
	}
	for i := range out {
		for j := i + 1; j < len(out); j++ {
			if out[j] < out[i] {
				out[i], out[j] = out[j], out[i]
			}
		}
	}
	return out
}

// Environment fault schedules (enumerated).
var envFaults = []string{
	"outage_atom_1", "outage_atom_5", "outage_atom_20", "outage_atom_200", "outage_all_1", "outage_all_2", "outage_all_5", "outage_all_20", "outage_all_200",
	"gap_1h", "gap_25h", "gap_8d", "gap_40d", "gap_400d", "gap_400d_then_outage", "empty_burst_60", "gaps_repeated_week",
	"pool_drain_same_block", "pools_nearly_emptied", "dust_everything", "failing_txs_with_fees",
	"provider_vesting_slots_full", "vesting_slots_zero_then_epochs",
	"hostile_registry_entries_small", "hostile_registry_entries_large", "gap_then_owner_partial_closes", "fast_year_then_owner_partial_closes",
	"asset_entry_deleted_by_governance", "asset_entry_rewritten_by_governance",
	"provider_vestings_mature_together", "vesting_schedule_shortened_under_provider_entries",
}

func init() {
	run.Register("faults", func(c *run.Ctx) {
		// world with short price expiry so that outages really expire prices
		v := NewVariant(c)
		w := chain.NewWorld(chain.Config{NUsers: 12, Probes: false, Inflation: 1e14, VestBlocks: 50, EdenClaimed: 3_000_000_000, EnableVestNow: true, PriceExpiry: 30, LifeTimeBlock: 6})
		c.Attach(w)
		v.Prologue(w)
		w.GovExec("eden on", &mctypes.MsgTogglePoolEdenRewards{Authority: w.Gov, PoolId: 1, Enable: true}, &mctypes.MsgTogglePoolEdenRewards{Authority: w.Gov, PoolId: 2, Enable: true})
		burnerOn(c, w)
		g := v.Gen(w, c, MixWide)
		g.FeeProb = 0.5
		g.MaxTx = 8
		g.Hostile = 0.35
		if c.Job.Prop == "C18" || c.Job.Prop == "C19" {
			// transactions carrying several messages (only under the block-level and replica oracles:
			// the per-transaction monitors of other properties attribute a transaction to one message)
			g.MultiMsg = 0.15
		}
		// rich base state
		g.Free(c.N(40, 80), g.StdDt)
		edges := ParamEdges(w)
		keys := sortedKeys(edges)
		all := append([]string{}, envFaults...)
		for _, k := range keys {
			all = append(all, "param:"+k)
		}
		c.Extra["fault_schedules_total"] = len(all)
		// each job executes a slice of the enumeration on its own base state
		per := c.N(3, 4)
		start := (c.Job.Index * per) % len(all)
		done := []string{}
		for k := 0; k < per && !w.Dead; k++ {
			name := all[(start+k)%len(all)]
			applyFault(c, w, g, name, edges)
			done = append(done, name)
			c.Ev("fault:" + name)
			// recovery traffic with a live feeder
			w.Silent = map[string]bool{}
			g.Free(c.N(25, 60), g.StdDt)
		}
		c.Extra["example_schedules"] = done
		// generic single-field edges (both sides of every limit), a rotating slice per job, each
		// followed by traffic and then by a proposal restoring the parameters it found
		ge := GenericEdges(w)
		c.Extra["generic_param_edges_total"] = len(ge)
		gper := c.N(10, 24)
		gstart := (c.Job.Index * gper) % len(ge)
		gdone := []string{}
		for k := 0; k < gper && !w.Dead; k++ {
			e := ge[(gstart+k)%len(ge)]
			set, restore := e.Make()
			gdone = append(gdone, e.Name)
			if w.GovExec("generic:"+e.Name, set...) {
				c.Ev("generic_param_edge_passed")
				gdone[len(gdone)-1] += " [accepted]"
				w.Silent = map[string]bool{}
				g.Free(c.N(8, 12), g.StdDt)
				if !w.Dead && !w.GovExec("restore:"+e.Name, restore...) {
					c.Ev("generic_param_restore_failed")
				}
			} else {
				c.Ev("generic_param_edge_rejected")
			}
		}
		c.Extra["example_generic_edges"] = gdone
	})
}

type freeGen interface {
	Free(n int, dt func(int) int64)
	StdDt(i int) int64
}

func applyFault(c *run.Ctx, w *chain.World, g freeGen, name string, edges map[string]func() []sdk.Msg) {
	var k int
	switch {
	case len(name) > 6 && name[:6] == "param:":
		msgs := edges[name[6:]]()
		if w.GovExec(name, msgs...) {
			c.Ev("param_edge_passed")
		} else {
			c.Ev("param_edge_rejected")
		}
	case scan(name, "outage_atom_%d", &k):
		w.Silent = map[string]bool{"ATOM": true}
		g.Free(k, func(int) int64 { return 7 })
	case scan(name, "outage_all_%d", &k):
		w.Silent = map[string]bool{"ATOM": true, "USDC": true, "ELYS": true}
		g.Free(k, func(int) int64 { return 7 })
	case name == "gap_1h":
		g.Free(3, func(i int) int64 { return []int64{3600, 5, 5}[i] })
	case name == "gap_25h":
		g.Free(3, func(i int) int64 { return []int64{25 * 3600, 5, 5}[i] })
	case name == "gap_8d":
		g.Free(3, func(i int) int64 { return []int64{8 * 86400, 5, 5}[i] })
	case name == "gap_40d":
		g.Free(3, func(i int) int64 { return []int64{40 * 86400, 5, 5}[i] })
	case name == "gap_400d":
		g.Free(3, func(i int) int64 { return []int64{400 * 86400, 5, 5}[i] })
	case name == "gap_400d_then_outage":
		w.Silent = map[string]bool{"ATOM": true, "USDC": true, "ELYS": true}
		g.Free(6, func(i int) int64 { return []int64{400 * 86400, 5, 5, 5, 5, 5}[i] })
	case name == "empty_burst_60":
		for i := 0; i < 60 && !w.Dead; i++ {
			w.RunBlock(5)
		}
	case name == "gaps_repeated_week":
		g.Free(8, func(i int) int64 { return 7 * 86400 })
	case name == "pool_drain_same_block":
		// swap requests are accepted, then the biggest LP of each pool exits 99 % later in the same block
		gg := g.(*gen.Gen)
		for pid := uint64(1); pid <= 3 && !w.Dead; pid++ {
			ctx := w.ReadCtx()
			if _, ok := w.App.AmmKeeper.GetPool(ctx, pid); !ok {
				continue
			}
			txs := []*chain.TxRecord{}
			for _, a := range w.Users[4:8] {
				if m := gg.Op("swapIn1", a, ctx); m != nil {
					txs = append(txs, w.Tx(a, m))
				}
				if m := gg.Op("swapOut1", w.Users[8], ctx); m != nil && len(txs) == 2 {
					txs = append(txs, w.Tx(w.Users[8], m))
				}
			}
			cm := w.App.CommitmentKeeper.GetCommitments(ctx, w.Users[0].Addr)
			have := cm.GetCommittedAmountForDenom(ammtypes.GetPoolShareDenom(pid))
			if have.IsPositive() {
				txs = append(txs, w.Tx(w.Users[0], &ammtypes.MsgExitPool{Sender: w.Users[0].S(), PoolId: pid, ShareAmountIn: have.MulRaw(99).QuoRaw(100), MinAmountsOut: sdk.NewCoins()}))
			}
			w.Step(4000, txs...)
		}
	case name == "pools_nearly_emptied":
		// every LP exits as much as it is allowed to, twice, then the blockers run on what is left
		for round := 0; round < 2 && !w.Dead; round++ {
			ctx := w.ReadCtx()
			txs := []*chain.TxRecord{}
			for _, a := range w.Users {
				cm := w.App.CommitmentKeeper.GetCommitments(ctx, a.Addr)
				for pid := uint64(1); pid <= 3; pid++ {
					have := cm.GetCommittedAmountForDenom(ammtypes.GetPoolShareDenom(pid))
					if have.IsPositive() {
						txs = append(txs, w.Tx(a, &ammtypes.MsgExitPool{Sender: a.S(), PoolId: pid, ShareAmountIn: have.MulRaw(999).QuoRaw(1000), MinAmountsOut: sdk.NewCoins()}))
						break
					}
				}
			}
			w.Step(4000, txs...)
		}
		g.Free(10, nil)
	case name == "dust_everything":
		// one-unit bonds, joins, swaps, opens and vests from everybody, then long gaps
		gg := g.(*gen.Gen)
		h := gg.Hostile
		gg.Hostile = 1
		g.Free(12, nil)
		gg.Hostile = h
		u := w.Users
		w.Step(5, w.Tx(u[3], &sstypes.MsgBond{Creator: u[3].S(), Amount: math.NewInt(1)}), w.Tx(u[4], &ammtypes.MsgJoinPool{Sender: u[4].S(), PoolId: 1, MaxAmountsIn: sdk.NewCoins(chain.Coin("uusdc", 1)), ShareAmountOut: math.NewInt(1)}),
			w.Tx(u[5], &lptypes.MsgOpen{Creator: u[5].S(), CollateralAsset: "uusdc", CollateralAmount: math.NewInt(1), AmmPoolId: 1, Leverage: d("1.5"), StopLossPrice: math.LegacyZeroDec()}),
			w.Tx(u[6], &perptypes.MsgOpen{Creator: u[6].S(), Position: perptypes.Position_LONG, Leverage: d("2"), TradingAsset: "uatom", Collateral: chain.Coin("uusdc", 1), TakeProfitPrice: w.Prices["ATOM"].MulInt64(3), StopLossPrice: math.LegacyZeroDec(), PoolId: 1}),
			w.Tx(u[7], &commitmenttypes.MsgVest{Creator: u[7].S(), Amount: math.NewInt(1), Denom: "ueden"}))
		g.Free(4, func(i int) int64 { return []int64{86400, 86400 * 30, 5, 5}[i] })
	case name == "provider_vesting_slots_full":
		// the provider reward account vests its Eden at every provider-vesting epoch; with few vesting
		// slots and a long schedule the slots are all taken after a few epochs
		w.GovExec(name, &commitmenttypes.MsgUpdateVestingInfo{Authority: w.Gov, BaseDenom: "ueden", VestingDenom: "uelys", NumBlocks: 10_000_000, VestNowFactor: 90, NumMaxVestings: 2})
		g.Free(10, func(i int) int64 { return []int64{11 * 86400, 5}[i%2] })
	case name == "provider_vestings_mature_together":
		// a gap of several provider-vesting epochs is caught up one epoch per block: the provider
		// reward account gets vesting entries in adjacent blocks; with a short schedule they run
		// out between two epoch boundaries and the next boundary's claim finishes several at once
		w.GovExec(name, &commitmenttypes.MsgUpdateVestingInfo{Authority: w.Gov, BaseDenom: "ueden", VestingDenom: "uelys", NumBlocks: 6, VestNowFactor: 90, NumMaxVestings: 12})
		for round := 0; round < 3 && !w.Dead; round++ {
			g.Free(18, func(i int) int64 {
				if i == 0 {
					return 35 * 86400
				}
				return 5
			})
			g.Free(2, func(i int) int64 { return []int64{11 * 86400, 5}[i] })
		}
	case name == "vesting_schedule_shortened_under_provider_entries":
		// a long entry from one epoch, the schedule length cut by governance, a short entry from the
		// next epoch: both are complete at the epoch after
		w.GovExec(name, &commitmenttypes.MsgUpdateVestingInfo{Authority: w.Gov, BaseDenom: "ueden", VestingDenom: "uelys", NumBlocks: 30, VestNowFactor: 90, NumMaxVestings: 12})
		g.Free(3, func(i int) int64 { return []int64{11 * 86400, 5, 5}[i] })
		w.GovExec(name+"/short", &commitmenttypes.MsgUpdateVestingInfo{Authority: w.Gov, BaseDenom: "ueden", VestingDenom: "uelys", NumBlocks: 2, VestNowFactor: 90, NumMaxVestings: 12})
		g.Free(30, func(i int) int64 {
			if i == 0 {
				return 11 * 86400
			}
			return 5
		})
		g.Free(4, func(i int) int64 { return []int64{11 * 86400, 5, 11 * 86400, 5}[i] })
	case name == "vesting_slots_zero_then_epochs":
		w.GovExec(name, &commitmenttypes.MsgUpdateVestingInfo{Authority: w.Gov, BaseDenom: "ueden", VestingDenom: "uelys", NumBlocks: 1000, VestNowFactor: 90, NumMaxVestings: 0})
		p := w.App.EstakingKeeper.GetParams(w.ReadCtx())
		p.ProviderVestingEpochIdentifier = "five_minutes"
		w.GovExec(name+"/epoch", &estakingtypes.MsgUpdateParams{Authority: w.Gov, Params: p})
		g.Free(8, func(i int) int64 { return 301 })
	case name == "asset_entry_deleted_by_governance":
		// governance owns the registry entries of the real assets and may delete them: the volatile
		// asset of the leveraged market, then the staking denom's reward token entry, lose their profile
		// while pools, positions, rewards and vestings in them exist; later the entries come back
		for _, dn := range []string{"uatom", "ueden"} {
			e, found := w.App.AssetprofileKeeper.GetEntry(w.ReadCtx(), dn)
			if !found {
				continue
			}
			if w.GovExec(name+"/"+dn, &aptypes.MsgDeleteEntry{Authority: w.Gov, BaseDenom: dn}) {
				c.Ev("asset_entry_deleted")
			} else {
				c.Ev("asset_entry_deletion_refused")
			}
			g.Free(12, g.StdDt)
			if !w.Dead {
				w.GovExec(name+"/restore/"+dn, &aptypes.MsgAddEntry{Creator: w.Gov, BaseDenom: e.BaseDenom, Denom: e.Denom, Decimals: e.Decimals, DisplayName: e.DisplayName, CommitEnabled: e.CommitEnabled, WithdrawEnabled: e.WithdrawEnabled})
			}
			g.Free(6, g.StdDt)
		}
	case name == "asset_entry_rewritten_by_governance":
		// the same entries rewritten with other decimals and with committing / withdrawing disabled
		for i, dn := range []string{"uatom", "uusdc", "ueden"} {
			e, found := w.App.AssetprofileKeeper.GetEntry(w.ReadCtx(), dn)
			if !found {
				continue
			}
			m := &aptypes.MsgUpdateEntry{Authority: w.Gov, BaseDenom: e.BaseDenom, Denom: e.Denom, Decimals: []uint64{18, 0, 6}[i], DisplayName: e.DisplayName, CommitEnabled: i == 1, WithdrawEnabled: i == 0}
			if w.GovExec(name+"/"+dn, m) {
				c.Ev("asset_entry_rewritten")
			} else {
				c.Ev("asset_entry_rewrite_refused")
			}
			g.Free(12, g.StdDt)
			if !w.Dead {
				w.GovExec(name+"/restore/"+dn, &aptypes.MsgUpdateEntry{Authority: w.Gov, BaseDenom: e.BaseDenom, Denom: e.Denom, Decimals: e.Decimals, DisplayName: e.DisplayName, CommitEnabled: e.CommitEnabled, WithdrawEnabled: e.WithdrawEnabled})
			}
			g.Free(6, g.StdDt)
		}
	case name == "hostile_registry_entries_small", name == "hostile_registry_entries_large":
		// assetprofile.MsgAddEntry and oracle.MsgCreateAssetInfo are accepted from anybody on this tree:
		// users register price infos for share / reward denoms and asset-profile entries that shadow
		// real ones (an entry whose base denom sorts first and whose denom is an existing one is what
		// GetEntryByDenom returns from then on), with ordinary and absurd decimals
		decs := []uint64{0, 6, 18, 30}
		if name == "hostile_registry_entries_large" {
			decs = []uint64{6, 6, 7} // 18-decimal share tokens priced as if they had 6
		}
		u := w.Users
		txs := []*chain.TxRecord{}
		for i, dn := range []string{"amm/pool/1", "amm/pool/2", "stablestake/share", "ueden", "uedenb", "zzz"} {
			a := u[3+i%8]
			txs = append(txs, w.Tx(a, &oracletypes.MsgCreateAssetInfo{Creator: a.S(), Denom: dn, Display: []string{"ATOM", "USDC", "NOPE"}[i%3], BandTicker: []string{"ATOM", "USDC", "NOPE"}[i%3], ElysTicker: []string{"ATOM", "USDC", "NOPE"}[i%3], Decimal: decs[i%len(decs)]}))
		}
		w.Step(5, txs...)
		txs = nil
		for i, dn := range []string{"uusdc", "uatom", "uelys", "amm/pool/1", "stablestake/share", "newcoin"} {
			a := u[3+i%8]
			txs = append(txs, w.Tx(a, &aptypes.MsgAddEntry{Creator: a.S(), BaseDenom: fmt.Sprintf("aa%d%s", i, name[len(name)-5:]), Denom: dn, Decimals: []uint64{6, 12, 18}[i%3], DisplayName: "X", CommitEnabled: i%2 == 0, WithdrawEnabled: true}))
		}
		b := w.Step(5, txs...)
		if !w.Dead {
			for _, t := range b.Txs[1:] {
				if t.OK() {
					c.Ev("hostile_registry_entry_accepted")
				} else {
					c.Ev("hostile_registry_entry_rejected")
				}
			}
		}
		g.Free(25, g.StdDt)
		g.Free(3, func(i int) int64 { return []int64{90000, 5, 5}[i] })
	case name == "gap_then_owner_partial_closes", name == "fast_year_then_owner_partial_closes":
		// positions left alone for more than a year - or a year of one block by governance - so that
		// interest and funding use their custody up; then their owners close a part of each before any
		// bot looks at them
		gg := g.(*gen.Gen)
		w.Silent = map[string]bool{}
		if name == "gap_then_owner_partial_closes" {
			w.Step(500 * 86400)
		} else {
			w.GovExec(name, &parametertypes.MsgUpdateTotalBlocksPerYear{Creator: w.Gov, TotalBlocksPerYear: 1})
			w.Step(5)
		}
		for round := 0; round < 2 && !w.Dead; round++ {
			ctx := w.ReadCtx()
			txs := []*chain.TxRecord{}
			seen := map[string]bool{}
			for _, m := range w.App.PerpetualKeeper.GetAllMTPs(ctx) {
				o := w.ActorByAddr(m.Address)
				if o == nil || seen[m.Address] {
					continue
				}
				seen[m.Address] = true
				am := m.Custody
				if m.Position == perptypes.Position_SHORT {
					am = m.Liabilities
				}
				am = am.QuoRaw(int64(2 + round))
				if am.IsPositive() {
					txs = append(txs, w.Tx(o, &perptypes.MsgClose{Creator: o.S(), Id: m.Id, Amount: am}))
				}
			}
			seenL := map[string]bool{}
			for _, p := range w.App.LeveragelpKeeper.GetAllPositions(ctx) {
				o := w.ActorByAddr(p.Address)
				if o == nil || seenL[p.Address] || seen[p.Address] {
					continue
				}
				seenL[p.Address] = true
				txs = append(txs, w.Tx(o, &lptypes.MsgClose{Creator: o.S(), Id: p.Id, LpAmount: p.LeveragedLpAmount.QuoRaw(int64(2 + round))}))
			}
			if len(txs) > 0 {
				w.Step(5, txs...)
				c.Ev("owner_partial_closes_after_long_gap")
			}
		}
		_ = gg
		g.Free(8, nil)
		if name == "fast_year_then_owner_partial_closes" {
			w.GovExec(name+"/restore", &parametertypes.MsgUpdateTotalBlocksPerYear{Creator: w.Gov, TotalBlocksPerYear: 6307200})
		}
	case name == "failing_txs_with_fees":
		// transactions that fail in the message while paying fees in every denom
		for i := 0; i < 6 && !w.Dead; i++ {
			txs := []*chain.TxRecord{}
			for j, a := range w.Users[3:9] {
				fee := sdk.NewCoins(chain.Coin([]string{"uusdc", "uatom", "uelys"}[(i+j)%3], int64(1+j*977)))
				txs = append(txs, w.TxFee(a, fee, &sstypes.MsgUnbond{Creator: a.S(), Amount: math.NewIntWithDecimal(1, 30)}))
			}
			w.Step(5, txs...)
		}
	default:
		panic("unknown fault " + name)
	}
}

func scan(s, format string, k *int) bool {
	n, err := fmt.Sscanf(s, format, k)
	return err == nil && n == 1
}

// GenericEdges enumerates, by reflection over every module's Params struct, one governance proposal
// per (numeric field, boundary value): each LegacyDec field is set to values on both sides of the
// usual limits (a just-negative value, 0, 1, just above 1, 2, 1e6), each integer field to 0, 1 and
// 2^62, every other field staying as it is in state. Values that a module's Validate() refuses are
// simply rejected by the message (nothing happens); the point of sending them anyway is that a
// validation that lets one of them through shows in the blocks that follow. Each entry returns the
// proposal and the proposal that restores the parameters found in state.
type genericEdge struct {
	Name string
	Make func() (set []sdk.Msg, restore []sdk.Msg)
}

var decEdgeValues = []string{"-0.000000000000000001", "0", "1", "1.000000000000000001", "2", "1000000"}

func GenericEdges(w *chain.World) []genericEdge {
	a := w.App
	gov := w.Gov
	type mod struct {
		name string
		get  func() interface{}          // pointer to a fresh copy of the params in state
		msg  func(p interface{}) sdk.Msg // update message carrying *p
	}
	mods := []mod{
		{"masterchef", func() interface{} { p := a.MasterchefKeeper.GetParams(w.ReadCtx()); return &p }, func(p interface{}) sdk.Msg {
			return &mctypes.MsgUpdateParams{Authority: gov, Params: *(p.(*mctypes.Params))}
		}},
		{"amm", func() interface{} { p := a.AmmKeeper.GetParams(w.ReadCtx()); return &p }, func(p interface{}) sdk.Msg {
			return &ammtypes.MsgUpdateParams{Authority: gov, Params: p.(*ammtypes.Params)}
		}},
		{"perpetual", func() interface{} { p := a.PerpetualKeeper.GetParams(w.ReadCtx()); return &p }, func(p interface{}) sdk.Msg {
			return &perptypes.MsgUpdateParams{Authority: gov, Params: p.(*perptypes.Params)}
		}},
		{"leveragelp", func() interface{} { p := a.LeveragelpKeeper.GetParams(w.ReadCtx()); return &p }, func(p interface{}) sdk.Msg {
			return &lptypes.MsgUpdateParams{Authority: gov, Params: p.(*lptypes.Params)}
		}},
		{"stablestake", func() interface{} { p := a.StablestakeKeeper.GetParams(w.ReadCtx()); return &p }, func(p interface{}) sdk.Msg {
			return &sstypes.MsgUpdateParams{Authority: gov, Params: p.(*sstypes.Params)}
		}},
		{"estaking", func() interface{} { p := a.EstakingKeeper.GetParams(w.ReadCtx()); return &p }, func(p interface{}) sdk.Msg {
			return &estakingtypes.MsgUpdateParams{Authority: gov, Params: *(p.(*estakingtypes.Params))}
		}},
		{"tradeshield", func() interface{} { p := a.TradeshieldKeeper.GetParams(w.ReadCtx()); return &p }, func(p interface{}) sdk.Msg {
			return &tstypes.MsgUpdateParams{Authority: gov, Params: p.(*tstypes.Params)}
		}},
	}
	decT := reflect.TypeOf(math.LegacyDec{})
	intT := reflect.TypeOf(math.Int{})
	out := []genericEdge{}
	for _, m := range mods {
		m := m
		t := reflect.TypeOf(m.get()).Elem()
		for i := 0; i < t.NumField(); i++ {
			f := t.Field(i)
			i := i
			add := func(label string, set func(v reflect.Value)) {
				out = append(out, genericEdge{Name: m.name + "." + f.Name + "=" + label, Make: func() ([]sdk.Msg, []sdk.Msg) {
					orig := m.get()
					p := m.get()
					set(reflect.ValueOf(p).Elem().Field(i))
					return []sdk.Msg{m.msg(p)}, []sdk.Msg{m.msg(orig)}
				}})
			}
			switch {
			case f.Type == decT:
				for _, v := range decEdgeValues {
					v := v
					add(v, func(x reflect.Value) { x.Set(reflect.ValueOf(chain.Dec(v))) })
				}
			case f.Type == intT:
				for _, v := range []int64{-1, 0, 1, 1 << 62} {
					v := v
					add(fmt.Sprint(v), func(x reflect.Value) { x.Set(reflect.ValueOf(math.NewInt(v))) })
				}
			case f.Type.Kind() == reflect.Uint64 || f.Type.Kind() == reflect.Int64:
				for _, v := range []int64{0, 1, 1 << 62} {
					v := v
					add(fmt.Sprint(v), func(x reflect.Value) {
						if x.Kind() == reflect.Uint64 {
							x.SetUint(uint64(v))
						} else {
							x.SetInt(v)
						}
					})
				}
			}
		}
	}
	return out
}
