// Package ref holds reference models written independently of the implementation's rounding
// choices: exact integer / rational arithmetic for the weighted constant-product formulas.
package ref

import (
	"math/big"
)

var e18 = new(big.Int).Exp(big.NewInt(10), big.NewInt(18), nil)

func pow(b *big.Int, e int64) *big.Int { return new(big.Int).Exp(b, big.NewInt(e), nil) }

// OutWithinExact decides, without any floating point, whether a swap of `a` (fee feeRaw/1e18 taken
// from the input) paying `out` respects the weighted constant-product invariant up to `allow`
// units of the output token:
//
//	(Bout - (out-allow))^wo * (Bin + a(1-f))^wi >= Bout^wo * Bin^wi
func OutWithinExact(bin, bout, a, out *big.Int, wi, wo int64, feeRaw *big.Int, allow *big.Int) bool {
	o := new(big.Int).Sub(out, allow)
	if o.Sign() <= 0 {
		return true
	}
	left := new(big.Int).Sub(bout, o)
	if left.Sign() <= 0 {
		return false
	}
	// scale the input side by 1e18
	inAfter := new(big.Int).Add(new(big.Int).Mul(bin, e18), new(big.Int).Mul(a, new(big.Int).Sub(e18, feeRaw)))
	lhs := new(big.Int).Mul(pow(left, wo), pow(inAfter, wi))
	rhs := new(big.Int).Mul(pow(bout, wo), pow(new(big.Int).Mul(bin, e18), wi))
	return lhs.Cmp(rhs) >= 0
}

// InCoversExact decides whether the input `in` charged for an exact output `out` is at least the
// exact requirement minus `allow` units of the input token:
//
//	(Bin + (in+allow)(1-f))^wi * (Bout-out)^wo >= Bin^wi * Bout^wo
func InCoversExact(bin, bout, in, out *big.Int, wi, wo int64, feeRaw *big.Int, allow *big.Int) bool {
	left := new(big.Int).Sub(bout, out)
	if left.Sign() <= 0 {
		return false
	}
	ii := new(big.Int).Add(in, allow)
	inAfter := new(big.Int).Add(new(big.Int).Mul(bin, e18), new(big.Int).Mul(ii, new(big.Int).Sub(e18, feeRaw)))
	lhs := new(big.Int).Mul(pow(inAfter, wi), pow(left, wo))
	rhs := new(big.Int).Mul(pow(new(big.Int).Mul(bin, e18), wi), pow(bout, wo))
	return lhs.Cmp(rhs) >= 0
}

// MinAllowance finds by bisection the smallest allowance in [0, hi] for which ok holds (for
// reporting how far over the exact value a result is).
func MinAllowance(hi *big.Int, ok func(*big.Int) bool) *big.Int {
	lo := big.NewInt(0)
	h := new(big.Int).Set(hi)
	for lo.Cmp(h) < 0 {
		mid := new(big.Int).Add(lo, h)
		mid.Rsh(mid, 1)
		if ok(mid) {
			h = mid
		} else {
			lo = new(big.Int).Add(mid, big.NewInt(1))
		}
	}
	return lo
}

// ValueNotDecreased decides V'/S' >= V/S for V = prod B_i^{w_i} (weights need not be normalised:
// compare (prod B'_i^{w_i}) * S^W >= (prod B_i^{w_i}) * S'^W with W = sum w_i), allowing each
// new reserve to be raised by allow_i first.
func ValueNotDecreased(before, after []*big.Int, w []int64, sBefore, sAfter *big.Int, allow []*big.Int) bool {
	W := int64(0)
	lhs, rhs := big.NewInt(1), big.NewInt(1)
	for i := range before {
		W += w[i]
		a := new(big.Int).Set(after[i])
		if allow != nil {
			a.Add(a, allow[i])
		}
		lhs.Mul(lhs, pow(a, w[i]))
		rhs.Mul(rhs, pow(before[i], w[i]))
	}
	lhs.Mul(lhs, pow(sBefore, W))
	rhs.Mul(rhs, pow(sAfter, W))
	return lhs.Cmp(rhs) >= 0
}
