package gen

import (
	"cosmossdk.io/math"
	sdk "github.com/cosmos/cosmos-sdk/types"
	tstypes "github.com/elys-network/elys/x/tradeshield/types"

	"verifharness/chain"
)

// OrderOps: tradeshield operations (create / update / cancel by owners and non-owners, execution
// requests from arbitrary senders naming arbitrary and repeated ids).
func OrderOps(g *Gen, ac *chain.Actor, name string, ctx sdk.Context) sdk.Msg {
	w, r, a := g.W, g.R, g.W.App
	me := ac.S()
	atom := w.Prices["ATOM"]
	elys := w.Prices["ELYS"]
	around := func(p math.LegacyDec) math.LegacyDec { return p.Mul(chain.DecF(0.85 + r.Float64()*0.3)) }
	switch name {
	case "ordSpot":
		t := []tstypes.SpotOrderType{tstypes.SpotOrderType_STOPLOSS, tstypes.SpotOrderType_LIMITSELL, tstypes.SpotOrderType_LIMITBUY, tstypes.SpotOrderType_MARKETBUY}[r.Intn(4)]
		switch r.Intn(3) {
		case 0: // sell atom for usdc
			return &tstypes.MsgCreateSpotOrder{OrderType: t, OrderPrice: tstypes.OrderPrice{BaseDenom: "uatom", QuoteDenom: "uusdc", Rate: around(atom)}, OrderAmount: chain.CoinI("uatom", g.Amt(1e4, 1e9)), OwnerAddress: me, OrderTargetDenom: "uusdc"}
		case 1: // pay usdc for atom
			return &tstypes.MsgCreateSpotOrder{OrderType: t, OrderPrice: tstypes.OrderPrice{BaseDenom: "uusdc", QuoteDenom: "uatom", Rate: around(math.LegacyOneDec().Quo(atom))}, OrderAmount: chain.CoinI("uusdc", g.Amt(1e4, 5e9)), OwnerAddress: me, OrderTargetDenom: "uatom"}
		default: // elys for usdc
			return &tstypes.MsgCreateSpotOrder{OrderType: t, OrderPrice: tstypes.OrderPrice{BaseDenom: "uelys", QuoteDenom: "uusdc", Rate: around(elys)}, OrderAmount: chain.CoinI("uelys", g.Amt(1e4, 1e9)), OwnerAddress: me, OrderTargetDenom: "uusdc"}
		}
	case "ordPerp":
		pos := tstypes.PerpetualPosition_LONG
		trig := atom.Mul(chain.DecF(0.9 + r.Float64()*0.15))
		tp := trig.MulInt64(3)
		if r.Intn(3) == 0 {
			pos = tstypes.PerpetualPosition_SHORT
			trig = atom.Mul(chain.DecF(0.95 + r.Float64()*0.15))
			tp = trig.QuoInt64(3)
		}
		lev := 1.5 + r.Float64()*8
		if g.hostile() {
			lev = []float64{9.9, 10, 24}[r.Intn(3)]
			if r.Intn(3) == 0 {
				trig = math.LegacyZeroDec() // accepted by validation; a long's trigger "market <= 0" never holds
			}
		}
		col := "uusdc"
		if pos == tstypes.PerpetualPosition_LONG && r.Intn(4) == 0 {
			col = "uatom"
		}
		return &tstypes.MsgCreatePerpetualOpenOrder{OwnerAddress: me, TriggerPrice: tstypes.TriggerPrice{TradingAssetDenom: "uatom", Rate: trig}, Collateral: chain.CoinI(col, g.Amt(1e5, 2e9)), TradingAsset: "uatom", Position: pos, Leverage: chain.DecF(lev), TakeProfitPrice: tp, StopLossPrice: math.LegacyZeroDec(), PoolId: 1}
	case "ordUpdate", "ordCancel":
		spots := a.TradeshieldKeeper.GetAllPendingSpotOrder(ctx)
		perps := a.TradeshieldKeeper.GetAllPendingPerpetualOrder(ctx)
		// mostly own orders, sometimes somebody else's
		foreign := g.hostile()
		var sp []tstypes.SpotOrder
		for _, o := range spots {
			if (o.OwnerAddress == me) != foreign {
				sp = append(sp, o)
			}
		}
		var pp []tstypes.PerpetualOrder
		for _, o := range perps {
			if (o.OwnerAddress == me) != foreign {
				pp = append(pp, o)
			}
		}
		if len(sp) > 0 && (len(pp) == 0 || r.Intn(2) == 0) {
			o := sp[r.Intn(len(sp))]
			if name == "ordUpdate" {
				np := o.OrderPrice
				np.Rate = np.Rate.Mul(chain.DecF(0.9 + r.Float64()*0.2))
				return &tstypes.MsgUpdateSpotOrder{OwnerAddress: me, OrderId: o.OrderId, OrderPrice: np}
			}
			if r.Intn(3) == 0 {
				return &tstypes.MsgCancelSpotOrders{Creator: me, SpotOrderIds: []uint64{o.OrderId}}
			}
			return &tstypes.MsgCancelSpotOrder{OwnerAddress: me, OrderId: o.OrderId}
		}
		if len(pp) > 0 {
			o := pp[r.Intn(len(pp))]
			if name == "ordUpdate" {
				nt := o.TriggerPrice
				nt.Rate = nt.Rate.Mul(chain.DecF(0.95 + r.Float64()*0.1))
				return &tstypes.MsgUpdatePerpetualOrder{OwnerAddress: me, OrderId: o.OrderId, TriggerPrice: nt}
			}
			if r.Intn(3) == 0 {
				return &tstypes.MsgCancelPerpetualOrders{OwnerAddress: me, OrderIds: []uint64{o.OrderId}}
			}
			return &tstypes.MsgCancelPerpetualOrder{OwnerAddress: me, OrderId: o.OrderId}
		}
		return nil
	case "ordExec":
		sids, pids := []uint64{}, []uint64{}
		// Naming a spot order whose trigger is not met makes the whole request fail on the pinned
		// tree (nil response dereferenced when the skip is logged as an execution), so half of the
		// requests name only spot orders whose trigger looks satisfied.
		onlyTriggered := r.Intn(2) == 0
		for _, o := range a.TradeshieldKeeper.GetAllPendingSpotOrder(ctx) {
			if r.Intn(3) == 0 {
				continue
			}
			if onlyTriggered {
				pin, _ := chain.USDValueOfOne(a, ctx, o.OrderPrice.BaseDenom)
				pout, _ := chain.USDValueOfOne(a, ctx, o.OrderPrice.QuoteDenom)
				if pin.IsZero() || pout.IsZero() {
					continue
				}
				mk := pin.Quo(pout)
				if o.OrderType == tstypes.SpotOrderType_LIMITSELL && mk.LT(o.OrderPrice.Rate) {
					continue
				}
				if o.OrderType != tstypes.SpotOrderType_LIMITSELL && mk.GT(o.OrderPrice.Rate) {
					continue
				}
			}
			sids = append(sids, o.OrderId)
		}
		for _, o := range a.TradeshieldKeeper.GetAllPendingPerpetualOrder(ctx) {
			if r.Intn(3) != 0 {
				pids = append(pids, o.OrderId)
			}
		}
		if g.hostile() && len(sids) > 0 {
			sids = append(sids, sids[0]) // repeated id
		}
		if len(sids)+len(pids) == 0 {
			return nil
		}
		return &tstypes.MsgExecuteOrders{Creator: me, SpotOrderIds: sids, PerpetualOrderIds: pids}
	}
	return nil
}
