// Package gen holds the seeded workload generators: state-aware, hostility-aware actor policies,
// price paths and fault schedules. Every choice derives from the seed and the chain state.
package gen

import (
	"fmt"
	aptypes "github.com/elys-network/elys/x/assetprofile/types"
	oracletypes "github.com/elys-network/elys/x/oracle/types"
	"math/rand"
	"sort"

	"cosmossdk.io/math"
	sdk "github.com/cosmos/cosmos-sdk/types"
	banktypes "github.com/cosmos/cosmos-sdk/x/bank/types"
	ammtypes "github.com/elys-network/elys/x/amm/types"
	commitmenttypes "github.com/elys-network/elys/x/commitment/types"
	lptypes "github.com/elys-network/elys/x/leveragelp/types"
	mctypes "github.com/elys-network/elys/x/masterchef/types"
	perptypes "github.com/elys-network/elys/x/perpetual/types"
	sstypes "github.com/elys-network/elys/x/stablestake/types"

	"verifharness/chain"
)

// Mix is a weighted operation catalogue.
type Mix map[string]int

func (m Mix) names() []string {
	out := make([]string, 0, len(m))
	for k, v := range m {
		if v > 0 {
			out = append(out, k)
		}
	}
	sort.Strings(out)
	return out
}

// Gen produces the transactions of one block.
type Gen struct {
	MultiMsg float64 // probability that an actor's transaction carries several messages

	W           *chain.World
	R           *rand.Rand
	Mix         Mix
	MaxTx       int     // max txs per block (besides the feeder)
	Hostile     float64 // fraction of adversarial variants
	Walk        float64 // per-block relative price step (uniform in +-Walk/2)
	JumpEvery   int     // one +-30% jump every n blocks on average (0 = never)
	FeeProb     float64 // probability a tx pays a fee
	TightLimits float64 // probability that a swap request gets a limit equal to its current quote
	MultiTx     float64 // probability that an actor sends a further tx in the same block
	Actors      []*chain.Actor
	Pool3       bool
	LevPool2    bool // a second oracle pool (uelys/uusdc) with leveragelp and a perpetual market exists (w.ElysMarketPool)
	names       []string
	total       int
}

func New(w *chain.World, seed int64, mix Mix) *Gen {
	g := &Gen{W: w, R: rand.New(rand.NewSource(seed)), Mix: mix, MaxTx: 5, Hostile: 0.25, Walk: 0.06, JumpEvery: 60, Actors: w.Users, MultiTx: 0.15, TightLimits: 0.25}
	g.names = mix.names()
	for _, n := range g.names {
		g.total += mix[n]
	}
	w.GovTraffic = g.Block
	return g
}

func (g *Gen) pick() string {
	x := g.R.Intn(g.total)
	for _, n := range g.names {
		x -= g.Mix[n]
		if x < 0 {
			return n
		}
	}
	return g.names[len(g.names)-1]
}

// Amt draws log-uniformly in [lo, hi].
func (g *Gen) Amt(lo, hi float64) math.Int {
	if hi <= lo {
		return math.NewInt(int64(lo))
	}
	x := lo * powf(hi/lo, g.R.Float64())
	return math.NewInt(int64(x))
}

// WalkPrices moves the feeder's ATOM and ELYS prices.
func (g *Gen) WalkPrices() {
	for _, n := range []string{"ATOM", "ELYS"} {
		p, ok := g.W.Prices[n]
		if !ok {
			continue
		}
		f := 1 + (g.R.Float64()-0.5)*g.Walk
		if n == "ATOM" && g.JumpEvery > 0 {
			if g.R.Intn(g.JumpEvery) == 0 {
				f = 0.7
			}
			if g.R.Intn(g.JumpEvery) == 0 {
				f = 1.35
			}
		}
		np := p.Mul(chain.DecF(f))
		if np.LT(chain.Dec("0.01")) {
			np = chain.Dec("0.01")
		}
		if np.GT(chain.Dec("100000")) {
			np = chain.Dec("100000")
		}
		g.W.Prices[n] = np
	}
}

func (g *Gen) hostile() bool { return g.R.Float64() < g.Hostile }

func (g *Gen) otherAddr(ac *chain.Actor) string {
	switch g.R.Intn(3) {
	case 0:
		return g.Actors[g.R.Intn(len(g.Actors))].S()
	case 1:
		return chain.MkActor(fmt.Sprintf("fresh%d", g.R.Intn(5))).S()
	}
	return ""
}

// Op builds one message of the named kind for actor ac (nil if not applicable in this state).
func (g *Gen) Op(name string, ac *chain.Actor, ctx sdk.Context) sdk.Msg {
	w, r, a := g.W, g.R, g.W.App
	me := ac.S()
	switch name {
	case "swapIn1":
		rcp := ""
		if r.Intn(4) == 0 {
			rcp = g.otherAddr(ac)
		}
		min := math.NewInt(1)
		if w.ElysMarketPool != 0 && r.Intn(6) == 0 {
			if r.Intn(2) == 0 {
				return &ammtypes.MsgSwapExactAmountIn{Sender: me, Routes: []ammtypes.SwapAmountInRoute{{PoolId: w.ElysMarketPool, TokenOutDenom: w.SecondAsset}}, TokenIn: chain.CoinI("uusdc", g.Amt(1, 5e10)), TokenOutMinAmount: min, Recipient: rcp}
			}
			return &ammtypes.MsgSwapExactAmountIn{Sender: me, Routes: []ammtypes.SwapAmountInRoute{{PoolId: w.ElysMarketPool, TokenOutDenom: "uusdc"}}, TokenIn: chain.CoinI(w.SecondAsset, g.Amt(1, 2e10)), TokenOutMinAmount: min, Recipient: rcp}
		}
		switch r.Intn(6) {
		case 0:
			return &ammtypes.MsgSwapExactAmountIn{Sender: me, Routes: []ammtypes.SwapAmountInRoute{{PoolId: 1, TokenOutDenom: "uatom"}}, TokenIn: chain.CoinI("uusdc", g.Amt(1, 5e10)), TokenOutMinAmount: min, Recipient: rcp}
		case 1:
			return &ammtypes.MsgSwapExactAmountIn{Sender: me, Routes: []ammtypes.SwapAmountInRoute{{PoolId: 1, TokenOutDenom: "uusdc"}}, TokenIn: chain.CoinI("uatom", g.Amt(1, 1e10)), TokenOutMinAmount: min, Recipient: rcp}
		case 2:
			return &ammtypes.MsgSwapExactAmountIn{Sender: me, Routes: []ammtypes.SwapAmountInRoute{{PoolId: 2, TokenOutDenom: "uelys"}}, TokenIn: chain.CoinI("uusdc", g.Amt(1, 5e10)), TokenOutMinAmount: min, Recipient: rcp}
		case 3:
			return &ammtypes.MsgSwapExactAmountIn{Sender: me, Routes: []ammtypes.SwapAmountInRoute{{PoolId: 2, TokenOutDenom: "uusdc"}}, TokenIn: chain.CoinI("uelys", g.Amt(1, 2e10)), TokenOutMinAmount: min, Recipient: rcp}
		default:
			if g.Pool3 {
				if r.Intn(2) == 0 {
					return &ammtypes.MsgSwapExactAmountIn{Sender: me, Routes: []ammtypes.SwapAmountInRoute{{PoolId: 3, TokenOutDenom: "uatom"}}, TokenIn: chain.CoinI("uusdc", g.Amt(1, 5e10)), TokenOutMinAmount: min, Recipient: rcp}
				}
				return &ammtypes.MsgSwapExactAmountIn{Sender: me, Routes: []ammtypes.SwapAmountInRoute{{PoolId: 3, TokenOutDenom: "uusdc"}}, TokenIn: chain.CoinI("uatom", g.Amt(1, 1e10)), TokenOutMinAmount: min, Recipient: rcp}
			}
			return &ammtypes.MsgSwapExactAmountIn{Sender: me, Routes: []ammtypes.SwapAmountInRoute{{PoolId: 1, TokenOutDenom: "uatom"}}, TokenIn: chain.CoinI("uusdc", g.Amt(1e3, 5e10)), TokenOutMinAmount: min, Recipient: rcp}
		}
	case "swapOut1":
		max := math.NewInt(1e13)
		if g.hostile() && r.Intn(6) == 0 {
			max = math.ZeroInt() // a stated maximum of nothing (accepted by validation)
		}
		if g.hostile() && r.Intn(3) == 0 {
			// boundary amounts: exactly a half / two thirds / three quarters of a constant-product
			// pool's reserve (the price formula raises exactly 2, 3, 4 to the weight ratio)
			pid := uint64(2)
			if g.Pool3 && r.Intn(2) == 0 {
				pid = 3
			}
			if p, ok := a.AmmKeeper.GetPool(ctx, pid); ok && len(p.PoolAssets) == 2 {
				oi := r.Intn(2)
				out, in := p.PoolAssets[oi].Token, p.PoolAssets[1-oi].Token
				k := int64(2 + r.Intn(3))
				amt := out.Amount.MulRaw(k - 1).QuoRaw(k)
				if amt.IsPositive() {
					return &ammtypes.MsgSwapExactAmountOut{Sender: me, Routes: []ammtypes.SwapAmountOutRoute{{PoolId: pid, TokenInDenom: in.Denom}}, TokenOut: sdk.NewCoin(out.Denom, amt), TokenInMaxAmount: math.NewIntWithDecimal(1, 15)}
				}
			}
		}
		switch r.Intn(4) {
		case 0:
			return &ammtypes.MsgSwapExactAmountOut{Sender: me, Routes: []ammtypes.SwapAmountOutRoute{{PoolId: 2, TokenInDenom: "uusdc"}}, TokenOut: chain.CoinI("uelys", g.Amt(1, 1e10)), TokenInMaxAmount: max}
		case 1:
			return &ammtypes.MsgSwapExactAmountOut{Sender: me, Routes: []ammtypes.SwapAmountOutRoute{{PoolId: 2, TokenInDenom: "uelys"}}, TokenOut: chain.CoinI("uusdc", g.Amt(1, 1e10)), TokenInMaxAmount: max}
		case 2:
			return &ammtypes.MsgSwapExactAmountOut{Sender: me, Routes: []ammtypes.SwapAmountOutRoute{{PoolId: 1, TokenInDenom: "uusdc"}}, TokenOut: chain.CoinI("uatom", g.Amt(1, 5e9)), TokenInMaxAmount: max}
		default:
			return &ammtypes.MsgSwapExactAmountOut{Sender: me, Routes: []ammtypes.SwapAmountOutRoute{{PoolId: 1, TokenInDenom: "uatom"}}, TokenOut: chain.CoinI("uusdc", g.Amt(1, 2e10)), TokenInMaxAmount: max}
		}
	case "swap2hop":
		switch r.Intn(5) {
		case 0: // a route that visits the same pool twice (round trip through one pool)
			return &ammtypes.MsgSwapExactAmountIn{Sender: me, Routes: []ammtypes.SwapAmountInRoute{{PoolId: 2, TokenOutDenom: "uusdc"}, {PoolId: 2, TokenOutDenom: "uelys"}}, TokenIn: chain.CoinI("uelys", g.Amt(1e3, 1e10)), TokenOutMinAmount: math.NewInt(1)}
		case 1: // pool 1 -> pool 2 -> pool 1
			return &ammtypes.MsgSwapExactAmountIn{Sender: me, Routes: []ammtypes.SwapAmountInRoute{{PoolId: 1, TokenOutDenom: "uusdc"}, {PoolId: 2, TokenOutDenom: "uelys"}, {PoolId: 2, TokenOutDenom: "uusdc"}, {PoolId: 1, TokenOutDenom: "uatom"}}, TokenIn: chain.CoinI("uatom", g.Amt(1e3, 2e9)), TokenOutMinAmount: math.NewInt(1)}
		case 2: // exact-out revisiting a pool
			return &ammtypes.MsgSwapExactAmountOut{Sender: me, Routes: []ammtypes.SwapAmountOutRoute{{PoolId: 2, TokenInDenom: "uusdc"}, {PoolId: 2, TokenInDenom: "uelys"}}, TokenOut: chain.CoinI("uusdc", g.Amt(1e3, 1e9)), TokenInMaxAmount: math.NewInt(1e13)}
		}
		switch r.Intn(4) {
		case 0: // exact-out across two pools, both directions
			return &ammtypes.MsgSwapExactAmountOut{Sender: me, Routes: []ammtypes.SwapAmountOutRoute{{PoolId: 1, TokenInDenom: "uatom"}, {PoolId: 2, TokenInDenom: "uusdc"}}, TokenOut: chain.CoinI("uelys", g.Amt(1e3, 2e9)), TokenInMaxAmount: math.NewInt(1e13)}
		case 1:
			return &ammtypes.MsgSwapExactAmountOut{Sender: me, Routes: []ammtypes.SwapAmountOutRoute{{PoolId: 2, TokenInDenom: "uelys"}, {PoolId: 1, TokenInDenom: "uusdc"}}, TokenOut: chain.CoinI("uatom", g.Amt(1e3, 5e8)), TokenInMaxAmount: math.NewInt(1e13)}
		case 2:
			return &ammtypes.MsgSwapExactAmountIn{Sender: me, Routes: []ammtypes.SwapAmountInRoute{{PoolId: 2, TokenOutDenom: "uusdc"}, {PoolId: 1, TokenOutDenom: "uatom"}}, TokenIn: chain.CoinI("uelys", g.Amt(1e3, 1e10)), TokenOutMinAmount: math.NewInt(1)}
		}
		return &ammtypes.MsgSwapExactAmountIn{Sender: me, Routes: []ammtypes.SwapAmountInRoute{{PoolId: 1, TokenOutDenom: "uusdc"}, {PoolId: 2, TokenOutDenom: "uelys"}}, TokenIn: chain.CoinI("uatom", g.Amt(1e3, 5e9)), TokenOutMinAmount: math.NewInt(1)}
	case "swapByDenom":
		pairs := [][2]string{{"uusdc", "uatom"}, {"uatom", "uusdc"}, {"uelys", "uusdc"}, {"uusdc", "uelys"}, {"uelys", "uatom"}}
		p := pairs[r.Intn(len(pairs))]
		if r.Intn(2) == 0 {
			return &ammtypes.MsgSwapByDenom{Sender: me, Amount: chain.CoinI(p[0], g.Amt(1e3, 1e10)), MinAmount: chain.Coin(p[1], 1), MaxAmount: chain.Coin(p[0], 0), DenomIn: p[0], DenomOut: p[1]}
		}
		return &ammtypes.MsgSwapByDenom{Sender: me, Amount: chain.CoinI(p[1], g.Amt(1e3, 1e9)), MinAmount: chain.Coin(p[1], 0), MaxAmount: chain.Coin(p[0], 1e13), DenomIn: p[0], DenomOut: p[1]}
	case "hostileRegistry":
		// permissionless registry messages of this tree: price infos for denoms that have none and
		// asset-profile entries that shadow existing ones (base denom sorting first, same denom)
		n := r.Intn(1 << 20)
		if r.Intn(2) == 0 {
			dn := []string{"amm/pool/1", "amm/pool/2", "amm/pool/3", "stablestake/share", "ueden", "uedenb", fmt.Sprintf("coin%d", n)}[r.Intn(7)]
			tk := []string{"ATOM", "USDC", "ELYS", "NOPE"}[r.Intn(4)]
			return &oracletypes.MsgCreateAssetInfo{Creator: me, Denom: dn, Display: tk, BandTicker: tk, ElysTicker: tk, Decimal: uint64(6 + r.Intn(13))}
		}
		dn := []string{"uusdc", "uatom", "uelys", "amm/pool/1", "amm/pool/2", "stablestake/share", "ueden", fmt.Sprintf("coin%d", n)}[r.Intn(8)]
		return &aptypes.MsgAddEntry{Creator: me, BaseDenom: fmt.Sprintf("%s%d", []string{"aa", "zz", "u"}[r.Intn(3)], n), Denom: dn, Decimals: uint64(6 + r.Intn(13)), DisplayName: "X", CommitEnabled: r.Intn(2) == 0, WithdrawEnabled: r.Intn(2) == 0}
	case "burnSend":
		// coins sent to the all-zero address: the burner module destroys the native ones at its epoch
		zero := sdk.AccAddress(make([]byte, 20)).String()
		cs := sdk.NewCoins(chain.CoinI("uelys", g.Amt(1, 1e8)))
		if r.Intn(3) == 0 {
			cs = cs.Add(chain.CoinI([]string{"uusdc", "uatom"}[r.Intn(2)], g.Amt(1, 1e6)))
		}
		return &banktypes.MsgSend{FromAddress: me, ToAddress: zero, Amount: cs}
	case "joinSingle":
		d := []string{"uusdc", "uatom"}[r.Intn(2)]
		if r.Intn(3) == 0 {
			// single-asset join of a constant-product pool (priced by the weighted share formula)
			if g.Pool3 && r.Intn(2) == 0 {
				return &ammtypes.MsgJoinPool{Sender: me, PoolId: 3, MaxAmountsIn: sdk.NewCoins(chain.CoinI(d, g.Amt(1e3, 5e10))), ShareAmountOut: math.NewInt(1)}
			}
			d2 := []string{"uusdc", "uelys"}[r.Intn(2)]
			if g.hostile() {
				// exactly 1x / 2x / 3x the reserve of the joined asset
				if p, ok := a.AmmKeeper.GetPool(ctx, 2); ok {
					for _, as := range p.PoolAssets {
						if as.Token.Denom == d2 && as.Token.Amount.LT(math.NewIntWithDecimal(1, 14)) {
							return &ammtypes.MsgJoinPool{Sender: me, PoolId: 2, MaxAmountsIn: sdk.NewCoins(sdk.NewCoin(d2, as.Token.Amount.MulRaw(int64(1+r.Intn(3))))), ShareAmountOut: math.NewInt(1)}
						}
					}
				}
			}
			return &ammtypes.MsgJoinPool{Sender: me, PoolId: 2, MaxAmountsIn: sdk.NewCoins(chain.CoinI(d2, g.Amt(1e3, 5e10))), ShareAmountOut: math.NewInt(1)}
		}
		if w.ElysMarketPool != 0 && r.Intn(4) == 0 {
			d = []string{"uusdc", w.SecondAsset}[r.Intn(2)]
			return &ammtypes.MsgJoinPool{Sender: me, PoolId: w.ElysMarketPool, MaxAmountsIn: sdk.NewCoins(chain.CoinI(d, g.Amt(1e3, 5e10))), ShareAmountOut: math.NewInt(1)}
		}
		return &ammtypes.MsgJoinPool{Sender: me, PoolId: 1, MaxAmountsIn: sdk.NewCoins(chain.CoinI(d, g.Amt(1e3, 5e10))), ShareAmountOut: math.NewInt(1)}
	case "joinAll":
		pid := uint64(2)
		if r.Intn(3) == 0 {
			pid = 1
		}
		if g.Pool3 && r.Intn(3) == 0 {
			pid = 3
		}
		p, ok := a.AmmKeeper.GetPool(ctx, pid)
		if !ok {
			return nil
		}
		max := sdk.NewCoins()
		for _, as := range p.PoolAssets {
			max = max.Add(chain.Coin(as.Token.Denom, 1e13))
		}
		sh := math.NewIntWithDecimal(int64(1+r.Intn(50)), 15+r.Intn(3))
		if g.hostile() {
			sh = math.NewInt(int64(1 + r.Intn(1000)))
		}
		return &ammtypes.MsgJoinPool{Sender: me, PoolId: pid, MaxAmountsIn: max, ShareAmountOut: sh}
	case "exit":
		c := a.CommitmentKeeper.GetCommitments(ctx, ac.Addr)
		pid := uint64(1 + r.Intn(2))
		if g.Pool3 && r.Intn(3) == 0 {
			pid = 3
		}
		if w.ElysMarketPool != 0 && r.Intn(4) == 0 {
			pid = w.ElysMarketPool
		}
		have := c.GetCommittedAmountForDenom(ammtypes.GetPoolShareDenom(pid))
		if !have.IsPositive() {
			return nil
		}
		out := ""
		if pid == 1 && r.Intn(2) == 0 {
			out = []string{"uusdc", "uatom"}[r.Intn(2)]
		}
		if pid == w.ElysMarketPool && r.Intn(2) == 0 {
			out = []string{"uusdc", w.SecondAsset}[r.Intn(2)]
		}
		sh := have.QuoRaw(int64(2 + r.Intn(8)))
		if g.hostile() {
			switch r.Intn(5) {
			case 3:
				// not an exit at all: try to pull the shares out of custody through the commitment
				// module's own generic messages (pool shares leave custody only by exiting)
				return &commitmenttypes.MsgUncommitTokens{Creator: me, Amount: sh, Denom: ammtypes.GetPoolShareDenom(pid)}
			case 4:
				return &commitmenttypes.MsgUnstake{Creator: me, Amount: sh, Asset: ammtypes.GetPoolShareDenom(pid)}
			case 0:
				sh = have
			case 1:
				sh = have.AddRaw(1)
			default:
				sh = math.NewInt(int64(1 + r.Intn(100)))
			}
		}
		if !sh.IsPositive() {
			return nil
		}
		return &ammtypes.MsgExitPool{Sender: me, PoolId: pid, ShareAmountIn: sh, TokenOutDenom: out, MinAmountsOut: sdk.NewCoins()}
	case "levOpen":
		lev := 1.1 + r.Float64()*9
		if g.hostile() {
			lev = []float64{1.0, 1.01, 10, 10.5, 30}[r.Intn(5)]
		}
		sl := math.LegacyZeroDec()
		if r.Intn(4) == 0 {
			sl = chain.DecF(0.5 + r.Float64())
		}
		pid := uint64(1)
		if g.LevPool2 && w.ElysMarketPool != 0 && r.Intn(3) == 0 {
			pid = w.ElysMarketPool
		}
		if r.Intn(8) == 0 {
			// aim at the vault's lending cap: borrow the headroom +- a little (leverage 2 borrows the collateral)
			p := a.StablestakeKeeper.GetParams(ctx)
			cash := a.BankKeeper.GetBalance(ctx, a.AccountKeeper.GetModuleAddress("stablestake"), p.DepositDenom).Amount
			head := p.TotalValue.MulRaw(9).QuoRaw(10).Sub(p.TotalValue.Sub(cash))
			if head.IsPositive() && head.LT(math.NewInt(1e14)) {
				d := p.TotalValue.MulRaw(int64(r.Intn(12000)) - 2000).QuoRaw(1_000_000)
				if amt := head.Add(d); amt.IsPositive() {
					return &lptypes.MsgOpen{Creator: me, CollateralAsset: "uusdc", CollateralAmount: amt, AmmPoolId: pid, Leverage: chain.Dec("2"), StopLossPrice: sl}
				}
			}
		}
		return &lptypes.MsgOpen{Creator: me, CollateralAsset: "uusdc", CollateralAmount: g.Amt(1e4, 2e10), AmmPoolId: pid, Leverage: chain.DecF(lev), StopLossPrice: sl}
	case "levClose":
		ps, _, _ := a.LeveragelpKeeper.GetPositionsForAddress(ctx, ac.Addr, nil)
		if len(ps) == 0 {
			return nil
		}
		p := ps[r.Intn(len(ps))]
		la := p.LeveragedLpAmount
		if r.Intn(2) == 0 {
			la = la.QuoRaw(int64(2 + r.Intn(5)))
		}
		if g.hostile() {
			switch r.Intn(4) {
			case 0:
				la = la.AddRaw(1)
			case 1: // all but dust, dust only
				la = p.LeveragedLpAmount.SubRaw(int64(1 + r.Intn(3)))
			case 2:
				la = math.NewInt(int64(1 + r.Intn(3)))
			}
		}
		if !la.IsPositive() {
			return nil
		}
		return &lptypes.MsgClose{Creator: me, Id: p.Id, LpAmount: la}
	case "levStop":
		ps, _, _ := a.LeveragelpKeeper.GetPositionsForAddress(ctx, ac.Addr, nil)
		if len(ps) == 0 {
			return nil
		}
		p := ps[r.Intn(len(ps))]
		return &lptypes.MsgUpdateStopLoss{Creator: me, Position: p.Id, Price: chain.DecF(0.3 + r.Float64()*1.2)}
	case "levClaim":
		ps, _, _ := a.LeveragelpKeeper.GetPositionsForAddress(ctx, ac.Addr, nil)
		if len(ps) == 0 {
			return nil
		}
		ids := []uint64{}
		for _, p := range ps {
			ids = append(ids, p.Id)
		}
		return &lptypes.MsgClaimRewards{Sender: me, Ids: ids}
	case "levBot":
		req := []*lptypes.PositionRequest{}
		for _, p := range a.LeveragelpKeeper.GetAllPositions(ctx) {
			if r.Intn(3) != 0 {
				req = append(req, &lptypes.PositionRequest{Address: p.Address, Id: p.Id})
			}
		}
		if g.hostile() {
			req = append(req, &lptypes.PositionRequest{Address: g.Actors[r.Intn(len(g.Actors))].S(), Id: uint64(r.Intn(50))})
		}
		if len(req) == 0 {
			return nil
		}
		if r.Intn(2) == 0 {
			return &lptypes.MsgClosePositions{Creator: me, Liquidate: req}
		}
		return &lptypes.MsgClosePositions{Creator: me, StopLoss: req}
	case "perpOpen":
		atom := w.Prices["ATOM"]
		pos := perptypes.Position_LONG
		tp := atom.MulInt64(3)
		col := "uusdc"
		sl := math.LegacyZeroDec()
		if r.Intn(3) == 0 {
			pos = perptypes.Position_SHORT
			tp = atom.QuoInt64(3)
			if r.Intn(3) == 0 {
				sl = atom.Mul(chain.DecF(1.05 + r.Float64()*0.5))
			}
		} else {
			if r.Intn(3) == 0 {
				col = "uatom"
			}
			if r.Intn(3) == 0 {
				sl = atom.Mul(chain.DecF(0.5 + r.Float64()*0.45))
			}
			if r.Intn(4) == 0 {
				tp = atom.Mul(chain.DecF(1.1 + r.Float64()*2))
			}
		}
		lev := 1.2 + r.Float64()*8
		if g.hostile() {
			switch r.Intn(4) {
			case 0:
				lev = 0 // add collateral
			case 1:
				lev = 25
			case 2:
				lev = 1.01
			}
		}
		if g.LevPool2 && w.ElysMarketPool != 0 && r.Intn(3) == 0 {
			// the second market: ELYS on the second oracle pool
			// (or, in some worlds, a second market for the same trading asset as pool 1)
			el := w.Prices["ELYS"]
			if w.SecondAsset == "uatom" {
				el = atom
			}
			ratio := el.Quo(atom)
			c2 := col
			if c2 == "uatom" {
				c2 = w.SecondAsset
			}
			if !sl.IsZero() {
				sl = sl.Mul(ratio)
			}
			return &perptypes.MsgOpen{Creator: me, Position: pos, Leverage: chain.DecF(lev), TradingAsset: w.SecondAsset, Collateral: chain.CoinI(c2, g.Amt(1e4, 5e9)), TakeProfitPrice: tp.Mul(ratio), StopLossPrice: sl, PoolId: w.ElysMarketPool}
		}
		return &perptypes.MsgOpen{Creator: me, Position: pos, Leverage: chain.DecF(lev), TradingAsset: "uatom", Collateral: chain.CoinI(col, g.Amt(1e4, 5e9)), TakeProfitPrice: tp, StopLossPrice: sl, PoolId: 1}
	case "perpClose":
		ms := a.PerpetualKeeper.GetAllMTPsForAddress(ctx, ac.Addr)
		if len(ms) == 0 {
			return nil
		}
		mt := ms[r.Intn(len(ms))]
		am := mt.Custody
		if mt.Position == perptypes.Position_SHORT {
			am = mt.Liabilities
		}
		switch r.Intn(4) {
		case 0:
			am = am.QuoRaw(int64(2 + r.Intn(5)))
		case 1:
			am = am.MulRaw(int64(1 + r.Intn(99))).QuoRaw(100)
		}
		if g.hostile() && r.Intn(2) == 0 {
			am = am.MulRaw(2)
		}
		if !am.IsPositive() {
			return nil
		}
		return &perptypes.MsgClose{Creator: me, Id: mt.Id, Amount: am}
	case "perpSL":
		ms := a.PerpetualKeeper.GetAllMTPsForAddress(ctx, ac.Addr)
		if len(ms) == 0 {
			return nil
		}
		mt := ms[r.Intn(len(ms))]
		atom := w.Prices["ATOM"]
		f := 0.6 + r.Float64()*0.38
		if mt.Position == perptypes.Position_SHORT {
			f = 1.02 + r.Float64()*0.5
		}
		if g.hostile() {
			f = 0.5 + r.Float64()
		}
		return &perptypes.MsgUpdateStopLoss{Creator: me, Id: mt.Id, Price: atom.Mul(chain.DecF(f))}
	case "perpTP":
		ms := a.PerpetualKeeper.GetAllMTPsForAddress(ctx, ac.Addr)
		if len(ms) == 0 {
			return nil
		}
		mt := ms[r.Intn(len(ms))]
		atom := w.Prices["ATOM"]
		f := 1.05 + r.Float64()*3
		if mt.Position == perptypes.Position_SHORT {
			f = 0.2 + r.Float64()*0.75
		}
		if g.hostile() {
			f = 0.1 + r.Float64()*12
		}
		return &perptypes.MsgUpdateTakeProfitPrice{Creator: me, Id: mt.Id, Price: atom.Mul(chain.DecF(f))}
	case "perpBot":
		req := []perptypes.PositionRequest{}
		for _, mt := range a.PerpetualKeeper.GetAllMTPs(ctx) {
			if r.Intn(3) != 0 {
				req = append(req, perptypes.PositionRequest{Address: mt.Address, Id: mt.Id})
			}
		}
		if g.hostile() {
			req = append(req, perptypes.PositionRequest{Address: g.Actors[r.Intn(len(g.Actors))].S(), Id: uint64(100 + r.Intn(50))})
		}
		if len(req) == 0 {
			return nil
		}
		switch r.Intn(4) {
		case 0:
			return &perptypes.MsgClosePositions{Creator: me, Liquidate: req}
		case 1:
			return &perptypes.MsgClosePositions{Creator: me, StopLoss: req}
		case 2:
			return &perptypes.MsgClosePositions{Creator: me, TakeProfit: req}
		default:
			// split the list in three disjoint parts
			n := len(req)
			return &perptypes.MsgClosePositions{Creator: me, Liquidate: req[:n/3], StopLoss: req[n/3 : 2*n/3], TakeProfit: req[2*n/3:]}
		}
	case "bond":
		am := g.Amt(1, 1e10)
		if g.hostile() {
			am = math.NewInt(int64(1 + r.Intn(5)))
		}
		return &sstypes.MsgBond{Creator: me, Amount: am}
	case "unbond":
		c := a.CommitmentKeeper.GetCommitments(ctx, ac.Addr)
		have := c.GetCommittedAmountForDenom("stablestake/share")
		if !have.IsPositive() {
			return nil
		}
		am := have.QuoRaw(int64(1 + r.Intn(6)))
		if g.hostile() {
			switch r.Intn(3) {
			case 0:
				am = have.AddRaw(1)
			case 1:
				am = math.NewInt(int64(1 + r.Intn(5)))
			}
		}
		if !am.IsPositive() {
			return nil
		}
		return &sstypes.MsgUnbond{Creator: me, Amount: am}
	case "donate":
		pools := a.AmmKeeper.GetAllPool(ctx)
		if len(pools) == 0 {
			return nil
		}
		p := pools[r.Intn(len(pools))]
		to := p.Address
		if r.Intn(3) == 0 {
			to = p.RebalanceTreasury
		}
		d := p.PoolAssets[r.Intn(len(p.PoolAssets))].Token.Denom
		return &banktypes.MsgSend{FromAddress: me, ToAddress: to, Amount: sdk.NewCoins(chain.CoinI(d, g.Amt(1, 1e8)))}
	case "mcClaim":
		ids := []uint64{}
		for _, p := range a.AmmKeeper.GetAllPool(ctx) {
			ids = append(ids, p.PoolId)
		}
		ids = append(ids, 32767)
		if g.hostile() {
			// the same pool named more than once / a pool that does not exist
			switch r.Intn(3) {
			case 0:
				ids = append(ids, ids[0], ids[0])
			case 1:
				ids = []uint64{ids[r.Intn(len(ids))], 32767, 32767}
			default:
				ids = append(ids, 999)
			}
		}
		return &mctypes.MsgClaimRewards{Sender: me, PoolIds: ids}
	}
	if m := CommitOps(g, ac, name, ctx); m != nil {
		return m
	}
	if m := OrderOps(g, ac, name, ctx); m != nil {
		return m
	}
	return nil
}

// Block draws the transactions of one block: at most one per actor.
func (g *Gen) Block() []*chain.TxRecord {
	ctx := g.W.ReadCtx()
	perm := g.R.Perm(len(g.Actors))
	n := g.R.Intn(g.MaxTx + 1)
	if n > len(perm) {
		n = len(perm)
	}
	txs := []*chain.TxRecord{}
	for _, ui := range perm[:n] {
		ac := g.Actors[ui]
		name := g.pick()
		m := g.Op(name, ac, ctx)
		if m == nil {
			continue
		}
		var fee sdk.Coins
		if g.FeeProb > 0 && g.R.Float64() < g.FeeProb {
			d := []string{"uusdc", "uatom", "uelys"}[g.R.Intn(3)]
			fee = sdk.NewCoins(chain.CoinI(d, g.Amt(100, 1e6)))
		}
		if g.TightLimits > 0 && g.R.Float64() < g.TightLimits {
			m = g.Tighten(m, ctx)
		}
		if g.MultiMsg > 0 && g.R.Float64() < g.MultiMsg {
			// one transaction carrying two or three messages of the same signer: they succeed or are
			// rolled back together (a later message failing undoes the earlier ones, including what
			// they left in per-block transient state)
			ms := []sdk.Msg{m}
			for k := 0; k < 1+g.R.Intn(2); k++ {
				if m2 := g.Op(g.pick(), ac, ctx); m2 != nil {
					ms = append(ms, m2)
				}
			}
			t := g.W.TxFee(ac, fee, ms...)
			t.Tag = name + "+"
			txs = append(txs, t)
			continue
		}
		t := g.W.TxFee(ac, fee, m)
		t.Tag = name
		txs = append(txs, t)
		// now and then the same account sends more transactions in the same block (same block time:
		// same lock-up timestamps, consecutive sequence numbers)
		for k := 0; k < 2 && g.MultiTx > 0 && g.R.Float64() < g.MultiTx; k++ {
			n2 := g.pick()
			if m2 := g.Op(n2, ac, ctx); m2 != nil {
				t2 := g.W.Tx(ac, m2)
				t2.Tag = n2
				txs = append(txs, t2)
			}
		}
	}
	return txs
}

// Tighten replaces the limit of a swap request (minimum out / maximum in) by the amount the request
// would settle for right now, with no or very little slack: the request is accepted, and whether it
// can still be honoured at the end of the block depends on what else the block moves.
func (g *Gen) Tighten(m sdk.Msg, ctx sdk.Context) (out sdk.Msg) {
	return g.TightenWith(m, ctx, []int64{0, 0, 1, 10, 100}[g.R.Intn(5)])
}

// TightenWith: slack in 1e-4 of the quoted amount.
func (g *Gen) TightenWith(m sdk.Msg, ctx sdk.Context, slack int64) (out sdk.Msg) {
	out = m
	defer func() {
		if e := recover(); e != nil {
			out = m
		}
	}()
	cctx, _ := ctx.CacheContext()
	k := g.W.App.AmmKeeper
	up := func(a math.Int) math.Int { return a.MulRaw(10000 + slack).QuoRaw(10000) }
	down := func(a math.Int) math.Int { return a.MulRaw(10000 - slack).QuoRaw(10000) }
	switch x := m.(type) {
	case *ammtypes.MsgSwapExactAmountOut:
		res, err := k.SwapExactAmountOut(cctx, x)
		if err != nil || !res.TokenInAmount.IsPositive() {
			return m
		}
		y := *x
		y.TokenInMaxAmount = up(res.TokenInAmount)
		return &y
	case *ammtypes.MsgSwapExactAmountIn:
		res, err := k.SwapExactAmountIn(cctx, x)
		if err != nil || !res.TokenOutAmount.IsPositive() {
			return m
		}
		y := *x
		y.TokenOutMinAmount = down(res.TokenOutAmount)
		return &y
	case *ammtypes.MsgSwapByDenom:
		res, err := k.SwapByDenom(cctx, x)
		if err != nil || !res.Amount.Amount.IsPositive() {
			return m
		}
		y := *x
		if len(res.InRoute) > 0 {
			y.MinAmount = sdk.NewCoin(x.DenomOut, down(res.Amount.Amount))
		} else {
			y.MaxAmount = sdk.NewCoin(x.DenomIn, up(res.Amount.Amount))
		}
		return &y
	}
	return m
}

// Free runs n blocks of seeded mixed traffic with a price walk; dtFn chooses the block time step.
func (g *Gen) Free(n int, dtFn func(i int) int64) {
	for i := 0; i < n && !g.W.Dead; i++ {
		g.WalkPrices()
		dt := int64(5)
		if dtFn != nil {
			dt = dtFn(i)
		}
		g.W.Step(dt, g.Block()...)
	}
}

// StdDt: mostly 5 s blocks, occasionally a gap beyond the 1 h LP lock.
func (g *Gen) StdDt(i int) int64 {
	if g.R.Intn(40) == 0 {
		return 4000
	}
	return 5
}
