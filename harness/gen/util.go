package gen

import stdmath "math"

func powf(b, e float64) float64 { return stdmath.Pow(b, e) }
