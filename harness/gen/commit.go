package gen

import (
	"cosmossdk.io/math"
	sdk "github.com/cosmos/cosmos-sdk/types"
	stakingtypes "github.com/cosmos/cosmos-sdk/x/staking/types"
	commitmenttypes "github.com/elys-network/elys/x/commitment/types"
	estakingtypes "github.com/elys-network/elys/x/estaking/types"

	"verifharness/chain"
)

// CommitOps adds the commitment / vesting / staking operations to a generator.
func CommitOps(g *Gen, ac *chain.Actor, name string, ctx sdk.Context) sdk.Msg {
	w, r, a := g.W, g.R, g.W.App
	me := ac.S()
	c := a.CommitmentKeeper.GetCommitments(ctx, ac.Addr)
	part := func(x math.Int) math.Int {
		if !x.IsPositive() {
			return x
		}
		switch r.Intn(4) {
		case 0:
			return x
		case 1:
			return math.NewInt(int64(1 + r.Intn(1000)))
		}
		return x.MulRaw(int64(1 + r.Intn(99))).QuoRaw(100)
	}
	over := func(x math.Int) math.Int {
		if g.hostile() {
			return x.AddRaw(int64(1 + r.Intn(1000)))
		}
		return x
	}
	switch name {
	case "commitClaimed":
		d := []string{"ueden", "uedenb"}[r.Intn(2)]
		have := c.GetClaimedForDenom(d)
		if !have.IsPositive() {
			return nil
		}
		return &commitmenttypes.MsgCommitClaimedRewards{Creator: me, Amount: over(part(have)), Denom: d}
	case "uncommit":
		d := []string{"ueden", "uedenb"}[r.Intn(2)]
		have := c.GetCommittedAmountForDenom(d)
		if !have.IsPositive() {
			return nil
		}
		return &commitmenttypes.MsgUncommitTokens{Creator: me, Amount: over(part(have)), Denom: d}
	case "vest":
		have := c.GetClaimedForDenom("ueden")
		if !have.IsPositive() {
			return nil
		}
		return &commitmenttypes.MsgVest{Creator: me, Amount: over(part(have)), Denom: "ueden"}
	case "claimVesting":
		return &commitmenttypes.MsgClaimVesting{Sender: me}
	case "cancelVest":
		tot := math.ZeroInt()
		for _, v := range c.VestingTokens {
			tot = tot.Add(v.TotalAmount.Sub(v.ClaimedAmount))
		}
		if !tot.IsPositive() {
			return nil
		}
		return &commitmenttypes.MsgCancelVest{Creator: me, Amount: over(part(tot)), Denom: "ueden"}
	case "vestNow":
		have := c.GetClaimedForDenom("ueden")
		if !have.IsPositive() {
			return nil
		}
		return &commitmenttypes.MsgVestNow{Creator: me, Amount: over(part(have)), Denom: "ueden"}
	case "vestLiquid":
		return &commitmenttypes.MsgVestLiquid{Creator: me, Amount: g.Amt(1e3, 1e9), Denom: "uatom"}
	case "stake":
		switch r.Intn(3) {
		case 0:
			return &commitmenttypes.MsgStake{Creator: me, Amount: g.Amt(1e3, 1e10), Asset: "uelys", ValidatorAddress: w.ValOper.String()}
		default:
			d := []string{"ueden", "uedenb"}[r.Intn(2)]
			have := c.GetClaimedForDenom(d)
			if !have.IsPositive() {
				return nil
			}
			return &commitmenttypes.MsgStake{Creator: me, Amount: part(have), Asset: d, ValidatorAddress: w.ValOper.String()}
		}
	case "unstake":
		switch r.Intn(3) {
		case 0:
			del, err := a.StakingKeeper.GetDelegation(ctx, ac.Addr, w.ValOper)
			if err != nil {
				return nil
			}
			return &commitmenttypes.MsgUnstake{Creator: me, Amount: part(del.Shares.TruncateInt()), Asset: "uelys", ValidatorAddress: w.ValOper.String()}
		default:
			d := []string{"ueden", "uedenb"}[r.Intn(2)]
			have := c.GetCommittedAmountForDenom(d)
			if !have.IsPositive() {
				return nil
			}
			return &commitmenttypes.MsgUnstake{Creator: me, Amount: part(have), Asset: d, ValidatorAddress: w.ValOper.String()}
		}
	case "delegate":
		return &stakingtypes.MsgDelegate{DelegatorAddress: me, ValidatorAddress: w.ValOper.String(), Amount: chain.CoinI("uelys", g.Amt(1e3, 1e10))}
	case "undelegate":
		del, err := a.StakingKeeper.GetDelegation(ctx, ac.Addr, w.ValOper)
		if err != nil {
			return nil
		}
		am := part(del.Shares.TruncateInt())
		if !am.IsPositive() {
			return nil
		}
		return &stakingtypes.MsgUndelegate{DelegatorAddress: me, ValidatorAddress: w.ValOper.String(), Amount: chain.CoinI("uelys", am)}
	case "estWithdraw":
		switch r.Intn(3) {
		case 0:
			return &estakingtypes.MsgWithdrawAllRewards{DelegatorAddress: me}
		case 1:
			return &estakingtypes.MsgWithdrawElysStakingRewards{DelegatorAddress: me}
		default:
			return &estakingtypes.MsgWithdrawReward{DelegatorAddress: me, ValidatorAddress: w.ValOper.String()}
		}
	}
	return nil
}
