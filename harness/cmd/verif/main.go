package main

import (
	"fmt"
	"os"
	"path/filepath"
	"strconv"

	"verifharness/chain"
	"verifharness/run"
	_ "verifharness/scen"
)

func usage() {
	fmt.Println("usage: verif run <PROP> <quick|thorough> [--only scenario] [--max n] | verif worker <job-json> <out> | verif replay <file> | verif job <prop> <scenario> <index> <tier>")
	os.Exit(2)
}

func main() {
	if len(os.Args) < 2 {
		usage()
	}
	seed := int64(1)
	if s := os.Getenv("VERIF_SEED"); s != "" {
		if v, err := strconv.ParseInt(s, 10, 64); err == nil {
			seed = v
		}
	}
	self, _ := os.Executable()
	vdir := os.Getenv("VERIF_DIR")
	if vdir == "" {
		vdir = filepath.Dir(filepath.Dir(self))
	}
	switch os.Args[1] {
	case "run":
		if len(os.Args) < 4 {
			usage()
		}
		o := run.Options{Prop: os.Args[2], Tier: os.Args[3], Seed: seed, VerifDir: vdir, Self: self}
		for i := 4; i+1 < len(os.Args); i += 2 {
			switch os.Args[i] {
			case "--only":
				o.Only = os.Args[i+1]
			case "--max":
				o.MaxCount, _ = strconv.Atoi(os.Args[i+1])
			case "--par":
				o.Parallel, _ = strconv.Atoi(os.Args[i+1])
			}
		}
		os.Exit(run.Main(o))
	case "worker":
		if len(os.Args) < 4 {
			usage()
		}
		os.Exit(run.WorkerMain(os.Args[2], os.Args[3]))
	case "crashchild":
		if len(os.Args) < 5 {
			usage()
		}
		os.Exit(chain.CrashChildMain(os.Args[2], os.Args[3], os.Args[4]))
	case "replay":
		if len(os.Args) < 3 {
			usage()
		}
		os.Exit(run.ReplayMain(os.Args[2]))
	case "job":
		// run one job in-process and print its result (development aid)
		if len(os.Args) < 6 {
			usage()
		}
		idx, _ := strconv.Atoi(os.Args[4])
		r := run.RunJob(run.Job{Prop: os.Args[2], Scenario: os.Args[3], Index: idx, Seed: seed, Tier: os.Args[5]})
		fmt.Printf("blocks=%d wall=%.1fs inconclusive=%q violations=%d extra=%v\n", r.Blocks, r.WallS, r.Inconclusive, r.NViolations, r.Extra)
		for i, v := range r.Violations {
			if i < 15 {
				fmt.Printf("  %s %v %s h=%d ops=%v :: %s\n", v.Rule, v.Scope, v.Relation, v.Height, v.Ops, v.Detail)
			}
		}
		for _, s := range r.Stats {
			fmt.Printf("  stats %s evals=%d distinct=%d events=%v\n", s.Prop, s.Evaluations, len(s.Distinct), s.Events)
		}
		fmt.Printf("  ok=%v\n  fail=%v\n  events=%v\n", r.TxOK, r.TxFail, r.Events)
		if os.Getenv("VERIF_VERBOSE") != "" {
			for k, v := range r.FailLogs {
				fmt.Printf("  faillog %s: %s\n", k, v)
			}
		}
	default:
		usage()
	}
}
