package main

import (
	"fmt"
	"strings"

	sdk "github.com/cosmos/cosmos-sdk/types"

	"verifharness/chain"
	"verifharness/run"
	_ "verifharness/scen"
)

type probe struct{ n int }

func (p *probe) AfterCommit(w *chain.World, blk *chain.BlockRecord) {
	if blk.Height < 36 || blk.Height > 62 || len(blk.Txs) < 2 || len(blk.Txs) > 6 {
		return
	}
	ctx := w.ReadCtx()
	pool, _ := w.App.AmmKeeper.GetPool(ctx, 1)
	tr := w.App.BankKeeper.GetAllBalances(ctx, sdk.MustAccAddressFromBech32(pool.RebalanceTreasury))
	fmt.Printf("h=%d pool1 %v treasury %v\n", blk.Height, pool.PoolAssets[0].Token.String()+" "+pool.PoolAssets[1].Token.String(), tr)
	for _, t := range blk.Txs[1:] {
		fmt.Printf("   tx %s ok=%v %.260s | %.120s\n", t.MsgType(), t.OK(), fmt.Sprint(t.Msgs), strings.SplitN(t.Result.Log, "\n", 2)[0])
	}
}

func main() {
	j := run.Job{Prop: "C04", Scenario: "swap-batch", Index: 0, Seed: 1, Tier: "quick"}
	run.AttachHook = func(w *chain.World) { w.AddProbe(&probe{}) }
	r := run.RunJob(j)
	fmt.Println(r.NViolations)
}
