package main

import (
	"fmt"

	"verifharness/chain"
	"verifharness/run"
	_ "verifharness/scen"
)

func main() {
	j := run.Job{Prop: "C09", Scenario: "mix", Index: 4, Seed: 1, Tier: "quick"}
	var W *chain.World
	run.AttachHook = func(w *chain.World) { W = w }
	r := run.RunJob(j)
	ctx := W.ReadCtx()
	n := map[uint64]int{}
	for _, m := range W.App.PerpetualKeeper.GetAllMTPs(ctx) {
		n[m.AmmPoolId]++
	}
	l := map[uint64]int{}
	for _, p := range W.App.LeveragelpKeeper.GetAllPositions(ctx) {
		l[p.AmmPoolId]++
	}
	fmt.Println("mtps per pool", n, "lev positions per pool", l, "market pool", W.ElysMarketPool, r.NViolations)
}
