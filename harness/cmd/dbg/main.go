package main

import (
	"fmt"

	sdk "github.com/cosmos/cosmos-sdk/types"
	perptypes "github.com/elys-network/elys/x/perpetual/types"

	"verifharness/chain"
	"verifharness/run"
	_ "verifharness/scen"
)

type probe struct{}

func (probe) PostTx(w *chain.World, ctx sdk.Context, tx *chain.TxRecord, success bool) {
	if ctx.BlockHeight() != 98 || tx == nil {
		return
	}
	if mo, ok := tx.Msgs[0].(*perptypes.MsgOpen); ok {
		fmt.Printf("OPEN success=%v %v\n", success, mo)
		for _, m := range w.App.PerpetualKeeper.GetAllMTPsForAddress(ctx, tx.Signer.Addr) {
			amm, _ := w.App.PerpetualKeeper.GetAmmPool(ctx, m.AmmPoolId)
			h, _ := w.App.PerpetualKeeper.GetMTPHealth(ctx, *m, amm, "uusdc")
			fmt.Printf("  mtp %d %s custody=%s liab=%s coll=%s stored=%s recomputed=%s unpaid=%s\n", m.Id, m.Position, m.Custody, m.Liabilities, m.Collateral, m.MtpHealth, h, m.BorrowInterestUnpaidLiability)
		}
	}
}

func main() {
	j := run.Job{Prop: "C10", Scenario: "forced", Index: 9, Seed: 1, Tier: "quick"}
	run.AttachHook = func(w *chain.World) { w.AddProbe(probe{}) }
	r := run.RunJob(j)
	fmt.Println(r.Extra, r.NViolations)
}
