package main

import (
	"fmt"

	sdk "github.com/cosmos/cosmos-sdk/types"

	"verifharness/chain"
	"verifharness/run"
	_ "verifharness/scen"
)

type probe struct{}

func (probe) AroundModule(w *chain.World, ctx sdk.Context, module, phase string, before bool) {
	if module == "masterchef" && phase == "end" && before && ctx.BlockHeight() >= 136 {
		a := w.App
		for _, p := range a.MasterchefKeeper.GetAllPoolInfos(ctx) {
			fmt.Printf("h=%d pool %d mult=%s eden=%v tvl=%s\n", ctx.BlockHeight(), p.PoolId, p.Multiplier, p.EnableEdenRewards, a.MasterchefKeeper.GetPoolTVL(ctx, p.PoolId))
		}
		fmt.Println("edenprice", a.AmmKeeper.GetEdenDenomPrice(ctx, "uusdc"))
	}
}

func main() {
	j := run.Job{Prop: "C18", Scenario: "rewards", Index: 0, Seed: 1, Tier: "quick"}
	run.AttachHook = func(w *chain.World) { w.AddProbe(probe{}) }
	r := run.RunJob(j)
	fmt.Println(r.Extra)
}
