package main

import (
	"fmt"
	"strings"

	"verifharness/chain"
	"verifharness/run"
	_ "verifharness/scen"
)

type probe struct{ on bool }

func (p *probe) AfterCommit(w *chain.World, blk *chain.BlockRecord) {
	for _, t := range blk.Txs {
		if strings.Contains(t.MsgType(), "MsgAddExternalIncentive") {
			fmt.Printf("h=%d incentive ok=%v %.200s | %.150s\n", blk.Height, t.OK(), fmt.Sprint(t.Msgs), t.Result.Log)
			p.on = true
		}
	}
	if p.on && blk.Height%2 == 0 {
		ctx := w.ReadCtx()
		pi, _ := w.App.MasterchefKeeper.GetPoolInfo(ctx, 2)
		_, okA := w.App.OracleKeeper.GetAssetPrice(ctx, "ELYS")
		_, okU := w.App.OracleKeeper.GetAssetPrice(ctx, "USDC")
		fmt.Printf("h=%d pool2 ext denoms %v elys price %v usdc price %v\n", blk.Height, pi.ExternalRewardDenoms, okA, okU)
		for _, pri := range w.App.MasterchefKeeper.GetAllPoolRewardInfos(ctx) {
			if pri.PoolId == 2 && pri.RewardDenom == "uusdc" {
				fmt.Printf("    acc 2|uusdc = %s last=%d\n", pri.PoolAccRewardPerShare, pri.LastUpdatedBlock)
			}
		}
		late := w.Users[10]
		for _, u := range w.App.MasterchefKeeper.GetAllUserRewardInfos(ctx) {
			if u.User == late.S() && u.PoolId == 2 {
				fmt.Printf("    late uri %s pend=%s debt=%s\n", u.RewardDenom, u.RewardPending, u.RewardDebt)
			}
		}
		cm := w.App.CommitmentKeeper.GetCommitments(ctx, late.Addr)
		fmt.Printf("    late committed pool2 %s\n", cm.GetCommittedAmountForDenom("amm/pool/2"))
	}
}

func main() {
	j := run.Job{Prop: "C13", Scenario: "rewards", Index: 1, Seed: 1, Tier: "quick"}
	run.AttachHook = func(w *chain.World) { w.AddProbe(&probe{}) }
	r := run.RunJob(j)
	fmt.Println(r.NViolations)
}
