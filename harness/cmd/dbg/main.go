package main

import (
	"fmt"

	"verifharness/chain"
	"verifharness/run"
	_ "verifharness/scen"
)

type probe struct{}

func (probe) AfterCommit(w *chain.World, blk *chain.BlockRecord) {
	if blk.Height == 13 {
		for i, t := range blk.Txs {
			fmt.Printf("tx %d %s signer=%s code=%d log=%.100s msgs=%v\n", i, t.MsgType(), t.Signer.Name, t.Result.Code, t.Result.Log, t.Msgs)
		}
	}
}

func main() {
	j := run.Job{Prop: "C16", Scenario: "oracle-names", Index: 0, Seed: 1, Tier: "quick"}
	run.AttachHook = func(w *chain.World) { w.AddProbe(probe{}) }
	r := run.RunJob(j)
	fmt.Println(r.Extra, r.NViolations)
}
