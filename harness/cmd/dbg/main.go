package main

import (
	"fmt"

	"cosmossdk.io/math"
	sdk "github.com/cosmos/cosmos-sdk/types"
	ammtypes "github.com/elys-network/elys/x/amm/types"

	"verifharness/chain"
)

func main() {
	for _, frac := range []int64{50, 80, 95, 99} {
		for _, ratio := range []int64{1, 3} {
			w := chain.NewWorld(chain.Config{NUsers: 6})
			w.Prologue(chain.PrologueCfg{Scale: 1e12})
			u := w.Users
			w.Step(4000)
			ctx := w.ReadCtx()
			cm := w.App.CommitmentKeeper.GetCommitments(ctx, u[0].Addr)
			have := cm.GetCommittedAmountForDenom("amm/pool/1")
			sw := &ammtypes.MsgSwapExactAmountIn{Sender: u[3].S(), Routes: []ammtypes.SwapAmountInRoute{{PoolId: 1, TokenOutDenom: "uatom"}}, TokenIn: chain.Coin("uusdc", 1e11*ratio), TokenOutMinAmount: math.NewInt(1)}
			ex := &ammtypes.MsgExitPool{Sender: u[0].S(), PoolId: 1, ShareAmountIn: have.MulRaw(frac).QuoRaw(100), MinAmountsOut: sdk.NewCoins()}
			b := w.Step(5, w.Tx(u[3], sw), w.Tx(u[0], ex))
			fmt.Printf("frac=%d ratio=%d err=%q", frac, ratio, b.Err)
			if b.Res != nil {
				fmt.Printf(" swap=%d exit=%d %s", b.Txs[1].Result.Code, b.Txs[2].Result.Code, b.Txs[2].Result.Log)
			}
			fmt.Println()
			w.Close()
		}
	}
}
