package main

import (
	"fmt"

	"verifharness/chain"
	"verifharness/run"
	"verifharness/scen"
)

type probe struct{}

func (probe) AfterCommit(w *chain.World, blk *chain.BlockRecord) {
	for _, t := range blk.Txs {
		if t.MsgType() == "/cosmos.gov.v1.MsgSubmitProposal" && !t.OK() {
			fmt.Printf("h=%d submit failed: %.300s\n", blk.Height, t.Result.Log)
		}
	}
	for _, e := range blk.Res.Events {
		if e.Type == "active_proposal" || e.Type == "proposal_failed" {
			s := ""
			for _, a := range e.Attributes {
				s += a.Key + "=" + a.Value + " "
			}
			if len(s) > 0 {
				fmt.Printf("h=%d %s %.400s\n", blk.Height, e.Type, s)
			}
		}
	}
}

func main() {
	_ = scen.MixAll
	j := run.Job{Prop: "C18", Scenario: "faults", Index: 9, Seed: 1, Tier: "quick"}
	run.AttachHook = func(w *chain.World) { w.AddProbe(probe{}) }
	r := run.RunJob(j)
	fmt.Println(r.NViolations)
}
