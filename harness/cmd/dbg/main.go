package main

import (
	"fmt"
	"strings"

	"verifharness/chain"
	"verifharness/run"
	_ "verifharness/scen"
)

type probe struct{}

func (probe) AfterCommit(w *chain.World, blk *chain.BlockRecord) {
	for _, t := range blk.Txs {
		mt := t.MsgType()
		if (strings.Contains(mt, "CreateAssetInfo") || strings.Contains(mt, "AddEntry") || strings.Contains(mt, "Uncommit") && blk.Height>100 || strings.Contains(mt, "MsgBond") && len(t.Fee) > 0) && !t.OK() {
			fmt.Printf("h=%d %s failed: %.300s\n", blk.Height, mt, strings.SplitN(t.Result.Log, "\n", 2)[0])
		}
	}
}

func main() {
	j := run.Job{Prop: "C18", Scenario: "faults", Index: 8, Seed: 1, Tier: "quick"}
	run.AttachHook = func(w *chain.World) { w.AddProbe(probe{}) }
	r := run.RunJob(j)
	fmt.Println(r.NViolations)
}
