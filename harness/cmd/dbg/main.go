package main

import (
	"fmt"
	"strings"

	"verifharness/chain"
	"verifharness/run"
	_ "verifharness/scen"
)

type probe struct{}

func (probe) AfterCommit(w *chain.World, blk *chain.BlockRecord) {
	if blk.Height != 122 {
		return
	}
	for _, t := range blk.Txs {
		fmt.Printf("TX %s ok=%v %.300s\n", t.MsgType(), t.OK(), fmt.Sprint(t.Msgs))
	}
	if blk.Res != nil {
		for _, e := range blk.Res.Events {
			if strings.Contains(e.Type, "swap") || strings.Contains(e.Type, "transfer") {
				s := e.Type + ": "
				for _, a := range e.Attributes {
					s += a.Key + "=" + a.Value + " "
				}
				fmt.Printf("EV %.400s\n", s)
			}
		}
	}
}

func main() {
	j := run.Job{Prop: "C03", Scenario: "swap-batch", Index: 1, Seed: 1, Tier: "quick"}
	run.AttachHook = func(w *chain.World) { w.AddProbe(probe{}) }
	r := run.RunJob(j)
	fmt.Println(r.Extra, r.NViolations)
}
