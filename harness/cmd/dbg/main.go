package main

import (
	"fmt"
	"strings"

	"verifharness/chain"
	"verifharness/run"
	_ "verifharness/scen"
)

type probe struct{}

func (probe) AfterCommit(w *chain.World, blk *chain.BlockRecord) {
	if blk.Height < 112 || blk.Height > 115 {
		return
	}
	for _, t := range blk.Txs {
		if strings.Contains(t.MsgType(), "leveragelp.MsgClosePositions") && t.Result != nil {
			for _, e := range t.Result.Events {
				if strings.Contains(e.Type, "close") || strings.Contains(e.Type, "Close") {
					for _, a := range e.Attributes {
						fmt.Printf("h=%d %s %s=%.600s\n", blk.Height, e.Type, a.Key, a.Value)
					}
				}
			}
		}
	}
}

func main() {
	j := run.Job{Prop: "C08", Scenario: "vault", Index: 2, Seed: 1, Tier: "quick"}
	run.AttachHook = func(w *chain.World) { w.AddProbe(probe{}) }
	r := run.RunJob(j)
	fmt.Println(r.Extra, r.NViolations)
}
