package chain

import (
	"context"

	sdk "github.com/cosmos/cosmos-sdk/types"
	"github.com/elys-network/elys/app"
)

// Module-manager wrappers: after InitChain (or after load on restart) the entries of
// ModuleManager().Modules for the Elys modules are replaced by forwarders that call the world's
// observers immediately before and after BeginBlock / EndBlock of that module.

type bbI interface{ BeginBlock(context.Context) error }
type ebI interface{ EndBlock(context.Context) error }

type wrapBase struct {
	w     *World
	name  string
	inner interface{}
}

func (b wrapBase) IsOnePerModuleType() {}
func (b wrapBase) IsAppModule()        {}

func (b wrapBase) begin(ctx context.Context) error {
	sctx := sdk.UnwrapSDKContext(ctx)
	b.w.onModule(sctx, b.name, "begin", true)
	err := b.inner.(bbI).BeginBlock(ctx)
	b.w.onModule(sctx, b.name, "begin", false)
	return err
}

func (b wrapBase) end(ctx context.Context) error {
	sctx := sdk.UnwrapSDKContext(ctx)
	b.w.onModule(sctx, b.name, "end", true)
	err := b.inner.(ebI).EndBlock(ctx)
	b.w.onModule(sctx, b.name, "end", false)
	return err
}

type wrapB struct{ wrapBase }

func (m wrapB) BeginBlock(ctx context.Context) error { return m.begin(ctx) }

type wrapE struct{ wrapBase }

func (m wrapE) EndBlock(ctx context.Context) error { return m.end(ctx) }

type wrapBE struct{ wrapBase }

func (m wrapBE) BeginBlock(ctx context.Context) error { return m.begin(ctx) }
func (m wrapBE) EndBlock(ctx context.Context) error   { return m.end(ctx) }

var ElysModules = []string{"amm", "leveragelp", "perpetual", "masterchef", "stablestake", "oracle", "commitment", "estaking", "tradeshield", "burner", "epochs", "tier", "accountedpool", "tokenomics", "assetprofile", "parameter", "transferhook"}

func (w *World) WrapModules(a *app.ElysApp) {
	mm := a.ModuleManager()
	for _, n := range ElysModules {
		in, ok := mm.Modules[n]
		if !ok {
			continue
		}
		if _, already := in.(interface{ verifWrapped() }); already {
			continue
		}
		_, hb := in.(bbI)
		_, he := in.(ebI)
		base := wrapBase{w: w, name: n, inner: in}
		switch {
		case hb && he:
			mm.Modules[n] = wrapBE{base}
		case hb:
			mm.Modules[n] = wrapB{base}
		case he:
			mm.Modules[n] = wrapE{base}
		}
	}
}

func (b wrapBase) verifWrapped() {}
