package chain

import (
	"bytes"
	"fmt"
	"os"
	"sort"
	"strings"

	abci "github.com/cometbft/cometbft/abci/types"
	dbm "github.com/cosmos/cosmos-db"
	"github.com/elys-network/elys/app"
)

// Replica is a second application object fed blocks chosen by the scenario (the same ones, or
// deliberately substituted ones). It shares nothing with the primary but the genesis bytes.
type Replica struct {
	Name    string
	App     *app.ElysApp
	DB      dbm.DB
	Home    string
	dir     string
	Height  int64
	LastRes *abci.ResponseFinalizeBlock
	Dead    string
}

// NewReplica boots an un-probed application from the world's genesis and runs block 1.
func NewReplica(w *World, name string, leveldb bool) *Replica {
	home, _ := os.MkdirTemp("", "verifrep")
	r := &Replica{Name: name, Home: home}
	if leveldb {
		dir, _ := os.MkdirTemp("", "verifdb")
		r.dir = dir
		db, err := dbm.NewGoLevelDB("application", dir, nil)
		if err != nil {
			panic(err)
		}
		r.DB = db
	} else {
		r.DB = dbm.NewMemDB()
	}
	r.App = NewApp(r.DB, home, true)
	if _, err := r.App.InitChain(w.InitChainReq()); err != nil {
		panic(err)
	}
	return r
}

func (r *Replica) Close() {
	r.DB.Close()
	os.RemoveAll(r.Home)
	if r.dir != "" {
		os.RemoveAll(r.dir)
	}
}

// Finalize runs FinalizeBlock only.
func (r *Replica) Finalize(req *abci.RequestFinalizeBlock) (*abci.ResponseFinalizeBlock, error) {
	if r.Dead != "" {
		return nil, fmt.Errorf("replica dead: %s", r.Dead)
	}
	res, err, _ := SafeFinalize(r.App, req)
	if err != nil {
		r.Dead = err.Error()
		return nil, err
	}
	r.LastRes = res
	return res, nil
}

func (r *Replica) Commit() error {
	if err, _ := SafeCommit(r.App); err != nil {
		r.Dead = err.Error()
		return err
	}
	r.Height++
	return nil
}

// Apply = Finalize + Commit.
func (r *Replica) Apply(req *abci.RequestFinalizeBlock) (*abci.ResponseFinalizeBlock, error) {
	res, err := r.Finalize(req)
	if err != nil {
		return nil, err
	}
	return res, r.Commit()
}

// Reopen throws the application object away and opens a new one over the same database (what a
// node restart does; with uncommitted FinalizeBlock state this is what a crash does).
func (r *Replica) Reopen() {
	if r.dir != "" {
		r.DB.Close()
		db, err := dbm.NewGoLevelDB("application", r.dir, nil)
		if err != nil {
			panic(err)
		}
		r.DB = db
	}
	r.App = NewApp(r.DB, r.Home, true)
}

// CompareResults returns a description of the first difference between two FinalizeBlock
// responses (AppHash, per-tx code/data/gas/log/codespace/events; block events as a multiset).
func CompareResults(a, b *abci.ResponseFinalizeBlock) string {
	if a == nil || b == nil {
		if a == nil && b == nil {
			return ""
		}
		return "one response missing"
	}
	if !bytes.Equal(a.AppHash, b.AppHash) {
		return fmt.Sprintf("AppHash %X != %X", a.AppHash, b.AppHash)
	}
	if len(a.TxResults) != len(b.TxResults) {
		return "tx result count differs"
	}
	for i := range a.TxResults {
		x, y := a.TxResults[i], b.TxResults[i]
		switch {
		case x.Code != y.Code:
			return fmt.Sprintf("tx %d code %d != %d", i, x.Code, y.Code)
		case !bytes.Equal(x.Data, y.Data):
			return fmt.Sprintf("tx %d data differs", i)
		case x.GasUsed != y.GasUsed || x.GasWanted != y.GasWanted:
			return fmt.Sprintf("tx %d gas %d/%d != %d/%d", i, x.GasUsed, x.GasWanted, y.GasUsed, y.GasWanted)
		case detLog(x.Log) != detLog(y.Log):
			return fmt.Sprintf("tx %d log %q != %q", i, x.Log, y.Log)
		case x.Codespace != y.Codespace:
			return fmt.Sprintf("tx %d codespace differs", i)
		}
		if d := eventsDiff(x.Events, y.Events, true); d != "" {
			return fmt.Sprintf("tx %d events: %s", i, d)
		}
	}
	if len(a.ValidatorUpdates) != len(b.ValidatorUpdates) {
		return "validator updates differ"
	}
	return ""
}

// detLog: the log of a transaction whose handler panicked carries the Go stack trace of the
// recovering process (goroutine ids, pointer values): only its first line is a function of the
// transaction. Every other log is compared in full.
func detLog(l string) string {
	if strings.HasPrefix(l, "recovered:") {
		if i := strings.Index(l, "\n"); i > 0 {
			return l[:i]
		}
	}
	return l
}

// BlockEventsDiff compares block events as multisets (their order is reported separately).
func BlockEventsDiff(a, b *abci.ResponseFinalizeBlock) (multiset string, order string) {
	return eventsDiff(a.Events, b.Events, false), eventsDiff(a.Events, b.Events, true)
}

func evString(e abci.Event) string {
	var sb strings.Builder
	sb.WriteString(e.Type)
	for _, at := range e.Attributes {
		sb.WriteString("|" + at.Key + "=" + at.Value)
	}
	return sb.String()
}

func eventsDiff(a, b []abci.Event, ordered bool) string {
	x, y := make([]string, len(a)), make([]string, len(b))
	for i := range a {
		x[i] = evString(a[i])
	}
	for i := range b {
		y[i] = evString(b[i])
	}
	if !ordered {
		sort.Strings(x)
		sort.Strings(y)
	}
	if len(x) != len(y) {
		return fmt.Sprintf("event count %d != %d", len(x), len(y))
	}
	for i := range x {
		if x[i] != y[i] {
			s := x[i]
			if len(s) > 200 {
				s = s[:200]
			}
			t := y[i]
			if len(t) > 200 {
				t = t[:200]
			}
			return fmt.Sprintf("event %d: %s != %s", i, s, t)
		}
	}
	return ""
}
