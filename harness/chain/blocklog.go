package chain

import (
	"bufio"
	"encoding/gob"
	"encoding/hex"
	"fmt"
	"os"

	abci "github.com/cometbft/cometbft/abci/types"
	dbm "github.com/cosmos/cosmos-db"
)

// BlockLog is the recorded input of a chain (InitChain request and every FinalizeBlock request,
// protobuf-encoded) with the application hash the primary computed for each block. A separate
// process can be fed from it (crash-kill scenario).
type BlockLog struct {
	Init   []byte
	Blocks []LoggedBlock
}

type LoggedBlock struct {
	Height  int64
	Req     []byte
	AppHash []byte
}

func (w *World) WriteBlockLog(path string) error {
	ir := w.InitChainReq()
	ib, err := ir.Marshal()
	if err != nil {
		return err
	}
	bl := BlockLog{Init: ib}
	for _, b := range w.Blocks {
		if b.Req == nil || b.Res == nil {
			continue
		}
		rb, err := b.Req.Marshal()
		if err != nil {
			return err
		}
		bl.Blocks = append(bl.Blocks, LoggedBlock{Height: b.Height, Req: rb, AppHash: b.AppHash})
	}
	f, err := os.Create(path)
	if err != nil {
		return err
	}
	defer f.Close()
	return gob.NewEncoder(f).Encode(&bl)
}

func ReadBlockLog(path string) (*BlockLog, error) {
	f, err := os.Open(path)
	if err != nil {
		return nil, err
	}
	defer f.Close()
	var bl BlockLog
	if err := gob.NewDecoder(bufio.NewReader(f)).Decode(&bl); err != nil {
		return nil, err
	}
	return &bl, nil
}

// CrashChildMain is the body of `verif crashchild <log> <dbdir> <out>`: open the LevelDB at dbdir,
// load the latest committed version, and apply the logged blocks that come after it, appending a
// line per event to out (opened with O_SYNC): "start <height> <commit hash>" once, then
// "block <height> <FinalizeBlock app hash> <commit hash after Commit>". The parent kills this
// process at arbitrary moments and starts it again.
func CrashChildMain(logPath, dbDir, outPath string) int {
	bl, err := ReadBlockLog(logPath)
	if err != nil {
		fmt.Fprintln(os.Stderr, "crashchild: read log:", err)
		return 3
	}
	out, err := os.OpenFile(outPath, os.O_APPEND|os.O_CREATE|os.O_WRONLY|os.O_SYNC, 0o644)
	if err != nil {
		fmt.Fprintln(os.Stderr, "crashchild: open out:", err)
		return 3
	}
	defer out.Close()
	db, err := dbm.NewGoLevelDB("application", dbDir, nil)
	if err != nil {
		fmt.Fprintln(os.Stderr, "crashchild: open db:", err)
		fmt.Fprintf(out, "openfail %v\n", err)
		return 4
	}
	home, _ := os.MkdirTemp("", "verifcrash")
	defer os.RemoveAll(home)
	a := NewApp(db, home, true)
	h := a.LastBlockHeight()
	fmt.Fprintf(out, "start %d %s\n", h, hex.EncodeToString(a.LastCommitID().Hash))
	if h == 0 {
		var ir abci.RequestInitChain
		if err := ir.Unmarshal(bl.Init); err != nil {
			fmt.Fprintln(os.Stderr, "crashchild: init req:", err)
			return 3
		}
		if _, err := a.InitChain(&ir); err != nil {
			fmt.Fprintf(out, "initfail %v\n", err)
			return 4
		}
	}
	for _, b := range bl.Blocks {
		if b.Height <= h {
			continue
		}
		var req abci.RequestFinalizeBlock
		if err := req.Unmarshal(b.Req); err != nil {
			fmt.Fprintln(os.Stderr, "crashchild: block req:", err)
			return 3
		}
		res, ferr, _ := SafeFinalize(a, &req)
		if ferr != nil {
			fmt.Fprintf(out, "finalizefail %d %v\n", b.Height, ferr)
			return 4
		}
		if cerr, _ := SafeCommit(a); cerr != nil {
			fmt.Fprintf(out, "commitfail %d %v\n", b.Height, cerr)
			return 4
		}
		fmt.Fprintf(out, "block %d %s %s\n", b.Height, hex.EncodeToString(res.AppHash), hex.EncodeToString(a.LastCommitID().Hash))
	}
	fmt.Fprintf(out, "done %d\n", a.LastBlockHeight())
	db.Close()
	return 0
}
