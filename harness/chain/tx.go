package chain

import (
	"context"

	storetypes "cosmossdk.io/store/types"
	"github.com/cosmos/cosmos-sdk/client"
	"github.com/cosmos/cosmos-sdk/crypto/keys/secp256k1"
	sdk "github.com/cosmos/cosmos-sdk/types"
	"github.com/cosmos/cosmos-sdk/types/tx/signing"
	authsigning "github.com/cosmos/cosmos-sdk/x/auth/signing"
)

func storeInfiniteGas() storetypes.GasMeter { return storetypes.NewInfiniteGasMeter() }

const GasLimit = 60_000_000

// SignTx builds and signs a SIGN_MODE_DIRECT transaction.
func SignTx(txc client.TxConfig, chainID string, priv *secp256k1.PrivKey, accNum, seq uint64, fee sdk.Coins, msgs ...sdk.Msg) ([]byte, error) {
	b := txc.NewTxBuilder()
	if err := b.SetMsgs(msgs...); err != nil {
		return nil, err
	}
	b.SetGasLimit(GasLimit)
	if fee == nil {
		fee = sdk.NewCoins()
	}
	b.SetFeeAmount(fee)
	mode := signing.SignMode_SIGN_MODE_DIRECT
	sig := signing.SignatureV2{PubKey: priv.PubKey(), Data: &signing.SingleSignatureData{SignMode: mode}, Sequence: seq}
	if err := b.SetSignatures(sig); err != nil {
		return nil, err
	}
	sd := authsigning.SignerData{ChainID: chainID, AccountNumber: accNum, Sequence: seq, PubKey: priv.PubKey(), Address: sdk.AccAddress(priv.PubKey().Address()).String()}
	bz, err := authsigning.GetSignBytesAdapter(context.Background(), txc.SignModeHandler(), mode, sd, b.GetTx())
	if err != nil {
		return nil, err
	}
	s, err := priv.Sign(bz)
	if err != nil {
		return nil, err
	}
	sig.Data = &signing.SingleSignatureData{SignMode: mode, Signature: s}
	if err := b.SetSignatures(sig); err != nil {
		return nil, err
	}
	return txc.TxEncoder()(b.GetTx())
}
