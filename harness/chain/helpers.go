package chain

import (
	"fmt"
	"github.com/elys-network/elys/app"

	"cosmossdk.io/math"
	sdk "github.com/cosmos/cosmos-sdk/types"
	govv1 "github.com/cosmos/cosmos-sdk/x/gov/types/v1"
	ammtypes "github.com/elys-network/elys/x/amm/types"
	lptypes "github.com/elys-network/elys/x/leveragelp/types"
	sstypes "github.com/elys-network/elys/x/stablestake/types"
)

func Dec(s string) math.LegacyDec { return math.LegacyMustNewDecFromStr(s) }
func DecF(f float64) math.LegacyDec {
	return math.LegacyMustNewDecFromStr(fmt.Sprintf("%.6f", f))
}
func Coin(d string, a int64) sdk.Coin     { return sdk.NewCoin(d, math.NewInt(a)) }
func CoinI(d string, a math.Int) sdk.Coin { return sdk.NewCoin(d, a) }

// Step runs one block that starts with the default feeder's price transaction.
func (w *World) Step(dt int64, txs ...*TxRecord) *BlockRecord {
	all := append([]*TxRecord{w.FeedTx()}, txs...)
	return w.RunBlock(dt, all...)
}

// FeederStep runs one block with the feeder's price transaction followed by another transaction
// signed by the same feeder (messages gated on the price-feeder role).
func (w *World) FeederStep(dt int64, msgs ...sdk.Msg) *BlockRecord {
	ft := w.FeedTx()
	et := w.Tx(w.Feeder, msgs...)
	return w.RunBlock(dt, ft, et)
}

// GovExec executes authority-gated messages the way production does: a real proposal, a real
// vote by the staked voter, and the gov end-blocker after the voting period. Returns true if the
// proposal passed and its messages executed.
func (w *World) GovExec(title string, msgs ...sdk.Msg) bool {
	prop, err := govv1.NewMsgSubmitProposal(msgs, sdk.NewCoins(sdk.NewCoin("uelys", math.NewInt(1000))), w.Voter.S(), "", title, title, false)
	if err != nil {
		panic(err)
	}
	b := w.Step(5, w.Tx(w.Voter, prop))
	if w.Dead || !b.Txs[len(b.Txs)-1].OK() {
		return false
	}
	w.ProposalID++
	id := w.ProposalID
	// every user votes as well: users delegate during the runs, and the genesis voter alone would
	// fall under the quorum / threshold after a while (a proposal voted down is not a rejected edge)
	votes := []*TxRecord{w.Tx(w.Voter, govv1.NewMsgVote(w.Voter.Addr, id, govv1.OptionYes, ""))}
	for _, u := range w.Users {
		votes = append(votes, w.Tx(u, govv1.NewMsgVote(u.Addr, id, govv1.OptionYes, "")))
	}
	b = w.Step(5, votes...)
	if w.Dead || !b.Txs[1].OK() {
		return false
	}
	// the block in which the voting period ends and the governance end-blocker executes the
	// messages carries ordinary traffic when the scenario has a generator: users' transactions run
	// before the end-blockers of the same block, so the executed messages meet whatever per-block
	// state (snapshots, queued swap requests, transient records) that traffic has left
	var traffic []*TxRecord
	if w.GovTraffic != nil {
		traffic = w.GovTraffic()
	}
	w.Step(11, traffic...)
	if w.Dead {
		return false
	}
	p, err := w.App.GovKeeper.Proposals.Get(w.ReadCtx(), id)
	if err != nil {
		return false
	}
	return p.Status == govv1.StatusPassed
}

// GovSubmit only submits and votes (2 blocks); the proposal executes in the first block whose time
// is >= 10 s later. Used when the scenario wants other traffic around the execution.
func (w *World) GovSubmit(title string, extra []*TxRecord, msgs ...sdk.Msg) uint64 {
	prop, err := govv1.NewMsgSubmitProposal(msgs, sdk.NewCoins(sdk.NewCoin("uelys", math.NewInt(1000))), w.Voter.S(), "", title, title, false)
	if err != nil {
		panic(err)
	}
	b := w.Step(5, append([]*TxRecord{w.Tx(w.Voter, prop)}, extra...)...)
	if w.Dead || !b.Txs[1].OK() {
		return 0
	}
	w.ProposalID++
	id := w.ProposalID
	w.Step(5, w.Tx(w.Voter, govv1.NewMsgVote(w.Voter.Addr, id, govv1.OptionYes, "")))
	return id
}

type PoolSpec struct {
	Oracle   bool
	Fee      string
	A, B     sdk.Coin
	WA, WB   int64
	FeeDenom string
}

func (w *World) CreatePoolMsg(creator *Actor, p PoolSpec) *ammtypes.MsgCreatePool {
	fd := p.FeeDenom
	if fd == "" {
		fd = "uusdc"
	}
	return &ammtypes.MsgCreatePool{Sender: creator.S(), PoolParams: ammtypes.PoolParams{UseOracle: p.Oracle, SwapFee: Dec(p.Fee), FeeDenom: fd}, PoolAssets: []ammtypes.PoolAsset{
		{Token: p.A, Weight: math.NewInt(p.WA), ExternalLiquidityRatio: math.LegacyNewDec(1)},
		{Token: p.B, Weight: math.NewInt(p.WB), ExternalLiquidityRatio: math.LegacyNewDec(1)}}}
}

// Prologue is the common start of most scenarios: pool 1 = oracle pool uatom/uusdc (perpetual and
// leveraged-LP enabled through a governance proposal), pool 2 = weighted constant-product
// uelys/uusdc, optional pool 3 = constant-product uatom/uusdc; lenders bond into stablestake.
type PrologueCfg struct {
	Scale    int64 // pool 1 usdc side in uusdc (default 1e12)
	Pool3    bool
	W2A, W2B int64
	Fee1     string
	Fee2     string
	LevMax   int64
	Bond     int64
	LevPool2 bool
	// LevPool2Asset: volatile asset of the second market ("" = uelys; "uatom" = same as pool 1)
	LevPool2Asset string
}

func (w *World) Prologue(c PrologueCfg) {
	if c.Scale == 0 {
		c.Scale = 1e12
	}
	if c.W2A == 0 {
		c.W2A, c.W2B = 2, 1
	}
	if c.Fee1 == "" {
		c.Fee1 = "0.002"
	}
	if c.Fee2 == "" {
		c.Fee2 = "0.003"
	}
	if c.LevMax == 0 {
		c.LevMax = 10
	}
	if c.Bond == 0 {
		c.Bond = c.Scale / 2
	}
	u := w.Users
	atom := w.Prices["ATOM"]
	atomAmt := math.LegacyNewDec(c.Scale).Quo(atom).TruncateInt()
	w.Step(5, w.Tx(u[0], w.CreatePoolMsg(u[0], PoolSpec{Oracle: true, Fee: c.Fee1, A: CoinI("uatom", atomAmt), B: Coin("uusdc", c.Scale), WA: 50, WB: 50})))
	elysAmt := math.LegacyNewDec(c.Scale).Quo(w.Prices["ELYS"]).TruncateInt()
	// pool 2 weights WA:WB with value split accordingly
	w.Step(5, w.Tx(u[0], w.CreatePoolMsg(u[0], PoolSpec{Fee: c.Fee2, A: CoinI("uelys", elysAmt.MulRaw(c.W2A)), B: Coin("uusdc", c.Scale*c.W2B), WA: c.W2A, WB: c.W2B})))
	if c.Pool3 {
		w.Step(5, w.Tx(u[0], w.CreatePoolMsg(u[0], PoolSpec{Fee: "0.001", A: CoinI("uatom", atomAmt), B: Coin("uusdc", c.Scale), WA: 1, WB: 1})))
	}
	msgs := []sdk.Msg{&lptypes.MsgAddPool{Authority: w.Gov, Pool: lptypes.AddPool{AmmPoolId: 1, LeverageMax: math.LegacyNewDec(c.LevMax)}}}
	if c.LevPool2 {
		// a second leveraged market: an oracle pool uelys/uusdc (leverage needs an oracle pool), created
		// after the optional pool 3; its id is kept in w.ElysMarketPool
		w.ElysMarketPool = 3
		if c.Pool3 {
			w.ElysMarketPool = 4
		}
		w.SecondAsset = "uelys"
		second := CoinI("uelys", elysAmt)
		if c.LevPool2Asset == "uatom" {
			w.SecondAsset = "uatom"
			second = CoinI("uatom", atomAmt)
		}
		w.Step(5, w.Tx(u[0], w.CreatePoolMsg(u[0], PoolSpec{Oracle: true, Fee: c.Fee1, A: second, B: Coin("uusdc", c.Scale), WA: 50, WB: 50})))
		msgs = append(msgs, &lptypes.MsgAddPool{Authority: w.Gov, Pool: lptypes.AddPool{AmmPoolId: w.ElysMarketPool, LeverageMax: math.LegacyNewDec(c.LevMax)}})
	}
	if !w.GovExec("add pool", msgs...) {
		panic("prologue: governance proposal enabling pool 1 did not pass")
	}
	w.Step(5, w.Tx(u[1], &sstypes.MsgBond{Creator: u[1].S(), Amount: math.NewInt(c.Bond)}), w.Tx(u[2], &sstypes.MsgBond{Creator: u[2].S(), Amount: math.NewInt(c.Bond * 3 / 5)}))
}

// USDValueOfOne is amm.CalculateUSDValue(denom, 1) for the harness's own use: that function panics
// inside the pool arithmetic on some states (e.g. the base currency's feed has lapsed and the
// fallback route prices against an emptied reserve); a handler calling it fails its transaction,
// and the harness must neither die of it nor let a probe turn it into a failure of the transaction
// under observation. A panic is reported as "no value".
func USDValueOfOne(a *app.ElysApp, ctx sdk.Context, denom string) (v math.LegacyDec, ok bool) {
	defer func() {
		if r := recover(); r != nil {
			v, ok = math.LegacyZeroDec(), false
		}
	}()
	cc, _ := ctx.CacheContext()
	return a.AmmKeeper.CalculateUSDValue(cc, denom, math.NewInt(1)), true
}
