// Package chain boots the real Elys application and drives it through the real ABCI surface
// (InitChain -> FinalizeBlock -> Commit) with signed transactions. It is the only client of the
// chain and records every request/response at that boundary.
package chain

import (
	"context"
	"encoding/json"
	"fmt"
	"os"
	"runtime/debug"
	"sort"
	"sync"
	"time"

	"cosmossdk.io/log"
	"cosmossdk.io/math"
	abci "github.com/cometbft/cometbft/abci/types"
	cmtproto "github.com/cometbft/cometbft/proto/tendermint/types"
	cmttypes "github.com/cometbft/cometbft/types"
	dbm "github.com/cosmos/cosmos-db"
	"github.com/cosmos/cosmos-sdk/baseapp"
	"github.com/cosmos/cosmos-sdk/client/flags"
	codectypes "github.com/cosmos/cosmos-sdk/codec/types"
	cryptocodec "github.com/cosmos/cosmos-sdk/crypto/codec"
	"github.com/cosmos/cosmos-sdk/crypto/keys/ed25519"
	"github.com/cosmos/cosmos-sdk/crypto/keys/secp256k1"
	"github.com/cosmos/cosmos-sdk/server"
	simtestutil "github.com/cosmos/cosmos-sdk/testutil/sims"
	sdk "github.com/cosmos/cosmos-sdk/types"
	authtypes "github.com/cosmos/cosmos-sdk/x/auth/types"
	banktypes "github.com/cosmos/cosmos-sdk/x/bank/types"
	govtypes "github.com/cosmos/cosmos-sdk/x/gov/types"
	govv1 "github.com/cosmos/cosmos-sdk/x/gov/types/v1"
	stakingtypes "github.com/cosmos/cosmos-sdk/x/staking/types"
	consumertypes "github.com/cosmos/interchain-security/v6/x/ccv/consumer/types"
	"github.com/elys-network/elys/app"
	ammtypes "github.com/elys-network/elys/x/amm/types"
	atypes "github.com/elys-network/elys/x/assetprofile/types"
	commitmenttypes "github.com/elys-network/elys/x/commitment/types"
	oracletypes "github.com/elys-network/elys/x/oracle/types"
	parametertypes "github.com/elys-network/elys/x/parameter/types"
	tokenomicstypes "github.com/elys-network/elys/x/tokenomics/types"
)

const ChainID = "elystestnet-1"
const GenesisTime = int64(1700000000)

func (c Config) genesisTime() int64 {
	if c.GenesisTime != 0 {
		return c.GenesisTime
	}
	return GenesisTime
}

// Actor is an account with a deterministic key.
type Actor struct {
	Name string
	Priv *secp256k1.PrivKey
	Addr sdk.AccAddress
	Num  uint64
	Seq  uint64
}

func (a *Actor) S() string { return a.Addr.String() }

func MkActor(name string) *Actor {
	p := secp256k1.GenPrivKeyFromSecret([]byte(name))
	return &Actor{Name: name, Priv: p, Addr: sdk.AccAddress(p.PubKey().Address())}
}

// DenomCfg describes one externally issued asset of the world.
type DenomCfg struct {
	Denom    string
	Display  string
	Decimals uint64
	Balance  math.Int       // genesis balance per account
	Price    math.LegacyDec // initial oracle price
}

// Config fixes everything about a world that is not a transaction.
type Config struct {
	// GenesisTime (unix seconds); 0 = the fixed default. Only the wall-clock-straddling variant of the
	// crash-kill scenario sets it (to the real time of the run).
	GenesisTime   int64
	NUsers        int
	Denoms        []DenomCfg
	ExtraFeeders  int
	PriceExpiry   uint64 // oracle Params.PriceExpiryTime (s)
	LifeTimeBlock uint64 // oracle Params.LifeTimeInBlocks
	Probes        bool   // install pre-msg / post-tx / module probes
	VestBlocks    int64  // commitment vesting schedule length for Eden->uelys (0 = module default)
	VestNowFactor int64
	MaxVestings   int64
	EnableVestNow bool
	EdenClaimed   int64                                     // claimable Eden every user starts with (genesis commitment records)
	Inflation     uint64                                    // tokenomics LM / staking reward Eden per year (0 = none)
	BlocksPerYear uint64                                    // parameter TotalBlocksPerYear (0 = default)
	Airdrops      bool                                      // tokenomics genesis airdrops for every 4th account (intent == authority == account)
	LevelDBDir    string                                    // "" => MemDB
	GenesisMut    func(a *app.ElysApp, gs app.GenesisState) // optional extra genesis edits
}

func DefaultDenoms() []DenomCfg {
	b := math.NewIntWithDecimal(1, 15)
	return []DenomCfg{
		{"uusdc", "USDC", 6, b, math.LegacyOneDec()},
		{"uatom", "ATOM", 6, b, math.LegacyNewDec(5)},
		{"uelys", "ELYS", 6, b, math.LegacyNewDec(3)},
	}
}

// TxRecord is one transaction as sent and as answered.
type TxRecord struct {
	Raw    []byte
	Signer *Actor
	Msgs   []sdk.Msg
	Fee    sdk.Coins
	Num    uint64
	Seq    uint64
	Tag    string
	Result *abci.ExecTxResult
}

func (t *TxRecord) OK() bool { return t.Result != nil && t.Result.Code == 0 }

func (t *TxRecord) MsgType() string {
	if len(t.Msgs) == 0 {
		return ""
	}
	return sdk.MsgTypeURL(t.Msgs[0])
}

// BlockRecord is the boundary log of one block.
type BlockRecord struct {
	Height  int64
	Time    int64
	Txs     []*TxRecord
	Req     *abci.RequestFinalizeBlock
	Res     *abci.ResponseFinalizeBlock
	Err     string // FinalizeBlock / Commit error or recovered panic
	Stack   string
	AppHash []byte
}

// Probe receives in-process observations. All methods are optional (see the interfaces below).
type PreMsgProbe interface {
	PreMsg(w *World, ctx sdk.Context, tx *TxRecord, msgIdx int, msg sdk.Msg, typeURL string)
}
type PostTxProbe interface {
	PostTx(w *World, ctx sdk.Context, tx *TxRecord, success bool)
}
type ModuleProbe interface {
	AroundModule(w *World, ctx sdk.Context, module, phase string, before bool)
}
type CommitProbe interface {
	AfterCommit(w *World, blk *BlockRecord)
}

// Violation is a structured finding of a monitor.
type Violation struct {
	Property string            `json:"property"`
	Rule     string            `json:"rule"`
	Scope    map[string]string `json:"scope,omitempty"`
	Ops      []string          `json:"trigger_ops,omitempty"`
	Relation string            `json:"relation,omitempty"`
	Height   int64             `json:"height"`
	TxIndex  int               `json:"tx_index"`
	Detail   string            `json:"detail"`
}

type World struct {
	Cfg       Config
	SubSecond bool // block times carry a sub-second part (see SubSecondJobs)
	// GovTraffic, when set (by the workload generator), supplies the user transactions of the block
	// in which a governance proposal executes
	GovTraffic func() []*TxRecord
	App        *app.ElysApp
	DB         dbm.DB
	Home       string
	Users      []*Actor
	Feeder     *Actor
	Feeders    []*Actor
	Voter      *Actor
	All        []*Actor
	// PhaseEvents: events emitted so far in the running begin- / end-block, refreshed before every
	// module-probe call
	PhaseEvents []abci.Event
	// ElysMarketPool: id of the second oracle pool (uelys/uusdc) with leverage enabled, 0 if none
	ElysMarketPool uint64
	// SecondAsset: the volatile asset of that second market ("uelys", or "uatom": two markets for
	// the same trading asset)
	SecondAsset string
	byAddr      map[string]*Actor
	Height      int64
	Now         int64
	ValSet      *cmttypes.ValidatorSet
	Val         *cmttypes.Validator
	ValOper     sdk.ValAddress
	Prices      map[string]math.LegacyDec // display -> price fed by the default feeder
	Silent      map[string]bool           // display -> feeder silent
	Blocks      []*BlockRecord
	KeepLog     int // number of block records kept (0 = all)
	Dead        bool
	Gov         string

	CommitMu     sync.Locker // if set, held exclusively around Commit (the committing ABCI client's discipline)
	GenesisBytes []byte
	probes       []interface{}
	cur          *BlockRecord
	curTxIdx     map[string]int
	curMsgCount  map[string]int
	wrapped      bool

	Violations []Violation
	OkCount    map[string]int
	FailCount  map[string]int
	FailLogs   map[string]string
	ProposalID uint64
}

func (w *World) AddProbe(p interface{}) { w.probes = append(w.probes, p) }

func (w *World) Report(v Violation) {
	if v.Height == 0 {
		v.Height = w.Height
	}
	w.Violations = append(w.Violations, v)
}

func NewApp(db dbm.DB, home string, load bool) *app.ElysApp {
	appOptions := make(simtestutil.AppOptionsMap, 0)
	appOptions[flags.FlagHome] = home
	appOptions[server.FlagInvCheckPeriod] = uint(0)
	return app.NewElysApp(log.NewNopLogger(), db, nil, load, map[int64]bool{}, home, appOptions, baseapp.SetChainID(ChainID))
}

// circuit implements baseapp.CircuitBreaker; it is the pre-message attach point.
type circuit struct{ w *World }

func (c *circuit) IsAllowed(ctx context.Context, typeURL string) (bool, error) {
	c.w.onPreMsg(sdk.UnwrapSDKContext(ctx), typeURL)
	return true, nil
}

func (w *World) onPreMsg(ctx sdk.Context, typeURL string) {
	if ctx.ExecMode() != sdk.ExecModeFinalize || w.cur == nil {
		return
	}
	var tx *TxRecord
	idx := 0
	var msg sdk.Msg
	if raw := ctx.TxBytes(); len(raw) > 0 {
		if i, ok := w.curTxIdx[string(raw)]; ok {
			tx = w.cur.Txs[i]
			idx = w.curMsgCount[string(raw)]
			w.curMsgCount[string(raw)] = idx + 1
			if idx < len(tx.Msgs) && sdk.MsgTypeURL(tx.Msgs[idx]) == typeURL {
				msg = tx.Msgs[idx]
			}
		}
	}
	for _, p := range w.probes {
		if pp, ok := p.(PreMsgProbe); ok {
			rc, _ := ctx.CacheContext()
			pp.PreMsg(w, rc.WithGasMeter(storeInfiniteGas()), tx, idx, msg, typeURL)
		}
	}
}

func (w *World) onPostTx(ctx sdk.Context, success bool) {
	if ctx.ExecMode() != sdk.ExecModeFinalize || w.cur == nil {
		return
	}
	var tx *TxRecord
	if i, ok := w.curTxIdx[string(ctx.TxBytes())]; ok {
		tx = w.cur.Txs[i]
	}
	for _, p := range w.probes {
		if pp, ok := p.(PostTxProbe); ok {
			rc, _ := ctx.CacheContext()
			pp.PostTx(w, rc.WithGasMeter(storeInfiniteGas()), tx, success)
		}
	}
}

func (w *World) onModule(ctx sdk.Context, module, phase string, before bool) {
	// the events emitted so far in this begin- / end-block (probes get a branched context with an
	// event manager of its own)
	w.PhaseEvents = ctx.EventManager().ABCIEvents()
	for _, p := range w.probes {
		if pp, ok := p.(ModuleProbe); ok {
			rc, _ := ctx.CacheContext()
			pp.AroundModule(w, rc.WithGasMeter(storeInfiniteGas()), module, phase, before)
		}
	}
}

// newProbedApp builds an app object with the attach points installed (no source change needed).
func (w *World) newProbedApp(db dbm.DB, probes bool) *app.ElysApp {
	if !probes {
		return NewApp(db, w.Home, true)
	}
	a := NewApp(db, w.Home, false)
	a.SetPostHandler(func(ctx sdk.Context, tx sdk.Tx, simulate, success bool) (sdk.Context, error) {
		w.onPostTx(ctx, success)
		return ctx, nil
	})
	if err := a.LoadLatestVersion(); err != nil {
		panic(err)
	}
	a.MsgServiceRouter().SetCircuit(&circuit{w})
	return a
}

// BuildGenesis produces the deterministic genesis of a world.
// nativeMetadata: bank denom metadata for the native token only, as on a real chain (IBC vouchers
// and other externally issued assets carry none). The burner module burns what sits at the zero
// address for every denom that has metadata.
func nativeMetadata() []banktypes.Metadata {
	return []banktypes.Metadata{{Description: "native token", Base: "uelys", Display: "uelys", Name: "Elys", Symbol: "ELYS", DenomUnits: []*banktypes.DenomUnit{{Denom: "uelys", Exponent: 0}}}}
}

func BuildGenesis(a *app.ElysApp, cfg Config, all []*Actor, feeders []*Actor, voter *Actor, creators []*Actor) ([]byte, *cmttypes.ValidatorSet, *cmttypes.Validator) {
	cdc := a.AppCodec()
	gs := app.NewDefaultGenesisState(a, cdc)
	valPriv := ed25519.GenPrivKeyFromSecret([]byte("val0"))
	tmPub, _ := cryptocodec.ToCmtPubKeyInterface(valPriv.PubKey())
	validator := cmttypes.NewValidator(tmPub, 1)
	valSet := cmttypes.NewValidatorSet([]*cmttypes.Validator{validator})
	pkAny, _ := codectypes.NewAnyWithValue(valPriv.PubKey())
	bondAmt := math.NewInt(1000_000_000)
	sval := stakingtypes.Validator{OperatorAddress: sdk.ValAddress(validator.Address).String(), ConsensusPubkey: pkAny, Status: stakingtypes.Bonded, Tokens: bondAmt, DelegatorShares: math.LegacyNewDecFromInt(bondAmt), UnbondingTime: time.Unix(0, 0).UTC(), Commission: stakingtypes.NewCommission(math.LegacyNewDecWithPrec(5, 2), math.LegacyNewDecWithPrec(10, 2), math.LegacyNewDecWithPrec(10, 2)), MinSelfDelegation: math.OneInt()}
	sp := stakingtypes.DefaultParams()
	sp.BondDenom = "uelys"
	sp.UnbondingTime = 100 * time.Second
	gs[stakingtypes.ModuleName] = cdc.MustMarshalJSON(stakingtypes.NewGenesisState(sp, []stakingtypes.Validator{sval}, []stakingtypes.Delegation{stakingtypes.NewDelegation(voter.Addr.String(), sdk.ValAddress(validator.Address).String(), math.LegacyNewDecFromInt(bondAmt))}))

	var genAccs []authtypes.GenesisAccount
	balances := []banktypes.Balance{}
	supply := sdk.NewCoins()
	per := sdk.NewCoins()
	for _, d := range cfg.Denoms {
		per = per.Add(sdk.NewCoin(d.Denom, d.Balance))
	}
	for _, ac := range all {
		genAccs = append(genAccs, authtypes.NewBaseAccountWithAddress(ac.Addr))
		balances = append(balances, banktypes.Balance{Address: ac.Addr.String(), Coins: per})
		supply = supply.Add(per...)
	}
	balances = append(balances, banktypes.Balance{Address: authtypes.NewModuleAddress(stakingtypes.BondedPoolName).String(), Coins: sdk.NewCoins(sdk.NewCoin("uelys", bondAmt))})
	supply = supply.Add(sdk.NewCoin("uelys", bondAmt))
	gs[authtypes.ModuleName] = cdc.MustMarshalJSON(authtypes.NewGenesisState(authtypes.DefaultParams(), genAccs))
	gs[banktypes.ModuleName] = cdc.MustMarshalJSON(banktypes.NewGenesisState(banktypes.DefaultGenesisState().Params, balances, supply, nativeMetadata(), []banktypes.SendEnabled{}))

	pub, _ := validator.ToProto()
	ivp := []abci.ValidatorUpdate{{Power: validator.VotingPower, PubKey: pub.PubKey}}
	vals, _ := cmttypes.PB2TM.ValidatorUpdates(ivp)
	cg := app.CreateMinimalConsumerTestGenesis()
	cg.Provider.InitialValSet = ivp
	cg.Provider.ConsensusState.NextValidatorsHash = cmttypes.NewValidatorSet(vals).Hash()
	cg.Provider.ConsensusState.Timestamp = time.Unix(cfg.genesisTime(), 0).UTC()
	cg.Params.Enabled = true
	gs[consumertypes.ModuleName] = cdc.MustMarshalJSON(cg)

	ap := atypes.DefaultGenesis()
	og := oracletypes.DefaultGenesis()
	for _, d := range cfg.Denoms {
		ap.EntryList = append(ap.EntryList, atypes.Entry{Authority: authtypes.NewModuleAddress(govtypes.ModuleName).String(), BaseDenom: d.Denom, Denom: d.Denom, Decimals: d.Decimals, DisplayName: d.Display, CommitEnabled: true, WithdrawEnabled: true})
		og.AssetInfos = append(og.AssetInfos, oracletypes.AssetInfo{Denom: d.Denom, Display: d.Display, Decimal: d.Decimals})
	}
	for _, d := range []string{"ueden", "uedenb"} {
		ap.EntryList = append(ap.EntryList, atypes.Entry{Authority: authtypes.NewModuleAddress(govtypes.ModuleName).String(), BaseDenom: d, Denom: d, Decimals: 6, DisplayName: d, CommitEnabled: true, WithdrawEnabled: true})
	}
	if GovOwnedShareEntries {
		// the registry entry of the lending vault's share token exists from genesis and belongs to
		// governance (otherwise the first deposit creates it, owned by the vault module, and nobody
		// can ever rewrite it)
		ap.EntryList = append(ap.EntryList, atypes.Entry{Authority: authtypes.NewModuleAddress(govtypes.ModuleName).String(), BaseDenom: "stablestake/share", Denom: "stablestake/share", Decimals: 6, DisplayName: "stablestake/share", CommitEnabled: true, WithdrawEnabled: true})
	}
	gs[atypes.ModuleName] = cdc.MustMarshalJSON(ap)
	for _, f := range feeders {
		og.PriceFeeders = append(og.PriceFeeders, oracletypes.PriceFeeder{Feeder: f.Addr.String(), IsActive: true})
	}
	if cfg.PriceExpiry != 0 {
		og.Params.PriceExpiryTime = cfg.PriceExpiry
	}
	if cfg.LifeTimeBlock != 0 {
		og.Params.LifeTimeInBlocks = cfg.LifeTimeBlock
	}
	gs[oracletypes.ModuleName] = cdc.MustMarshalJSON(og)

	var ag ammtypes.GenesisState
	cdc.MustUnmarshalJSON(gs[ammtypes.ModuleName], &ag)
	for _, c := range creators {
		ag.Params.AllowedPoolCreators = append(ag.Params.AllowedPoolCreators, c.Addr.String())
	}
	gs[ammtypes.ModuleName] = cdc.MustMarshalJSON(&ag)

	var gg govv1.GenesisState
	cdc.MustUnmarshalJSON(gs[govtypes.ModuleName], &gg)
	vp := 10 * time.Second
	evp := 5 * time.Second
	gg.Params.VotingPeriod = &vp
	gg.Params.ExpeditedVotingPeriod = &evp
	gg.Params.MinDeposit = sdk.NewCoins(sdk.NewCoin("uelys", math.NewInt(1000)))
	gg.Params.ExpeditedMinDeposit = sdk.NewCoins(sdk.NewCoin("uelys", math.NewInt(5000)))
	gs[govtypes.ModuleName] = cdc.MustMarshalJSON(&gg)

	var cmg commitmenttypes.GenesisState
	cdc.MustUnmarshalJSON(gs[commitmenttypes.ModuleName], &cmg)
	if cfg.VestBlocks != 0 {
		cmg.Params.VestingInfos[0].NumBlocks = cfg.VestBlocks
	}
	if cfg.VestNowFactor != 0 {
		cmg.Params.VestingInfos[0].VestNowFactor = math.NewInt(cfg.VestNowFactor)
	}
	if cfg.MaxVestings != 0 {
		cmg.Params.VestingInfos[0].NumMaxVestings = cfg.MaxVestings
	}
	cmg.Params.EnableVestNow = cfg.EnableVestNow
	if cfg.EdenClaimed > 0 {
		for _, ac := range all {
			cmg.Commitments = append(cmg.Commitments, &commitmenttypes.Commitments{Creator: ac.Addr.String(), Claimed: sdk.NewCoins(sdk.NewCoin("ueden", math.NewInt(cfg.EdenClaimed)))})
		}
	}
	gs[commitmenttypes.ModuleName] = cdc.MustMarshalJSON(&cmg)
	if cfg.Airdrops {
		// claimable airdrops as a production genesis carries them: intent == authority == claimer
		var tg tokenomicstypes.GenesisState
		cdc.MustUnmarshalJSON(gs[tokenomicstypes.ModuleName], &tg)
		for i, ac := range all {
			if i%4 == 3 {
				tg.AirdropList = append(tg.AirdropList, tokenomicstypes.Airdrop{Intent: ac.Addr.String(), Authority: ac.Addr.String(), Amount: 1_000_000, Expiry: uint64(cfg.genesisTime() + 86400*365)})
			}
		}
		gs[tokenomicstypes.ModuleName] = cdc.MustMarshalJSON(&tg)
	}
	if cfg.Inflation != 0 {
		var tg tokenomicstypes.GenesisState
		cdc.MustUnmarshalJSON(gs[tokenomicstypes.ModuleName], &tg)
		tg.TimeBasedInflationList = append(tg.TimeBasedInflationList, tokenomicstypes.TimeBasedInflation{StartBlockHeight: 1, EndBlockHeight: 100_000_000, Description: "verif", Authority: authtypes.NewModuleAddress(govtypes.ModuleName).String(),
			Inflation: &tokenomicstypes.InflationEntry{LmRewards: cfg.Inflation, IcsStakingRewards: cfg.Inflation, CommunityFund: cfg.Inflation / 10, StrategicReserve: cfg.Inflation / 10, TeamTokensVested: cfg.Inflation / 10}})
		gs[tokenomicstypes.ModuleName] = cdc.MustMarshalJSON(&tg)
	}
	if cfg.BlocksPerYear != 0 {
		var pg parametertypes.GenesisState
		cdc.MustUnmarshalJSON(gs[parametertypes.ModuleName], &pg)
		pg.Params.TotalBlocksPerYear = cfg.BlocksPerYear
		gs[parametertypes.ModuleName] = cdc.MustMarshalJSON(&pg)
	}

	if cfg.GenesisMut != nil {
		cfg.GenesisMut(a, gs)
	}
	// deterministic encoding: json.Marshal sorts map keys
	stateBytes, err := json.Marshal(gs)
	if err != nil {
		panic(err)
	}
	return stateBytes, valSet, validator
}

var consensusParams = &cmtproto.ConsensusParams{
	Block:     &cmtproto.BlockParams{MaxBytes: 20_000_000, MaxGas: -1},
	Evidence:  simtestutil.DefaultConsensusParams.Evidence,
	Validator: simtestutil.DefaultConsensusParams.Validator,
}

// NewWorld boots the application, runs InitChain and the first (empty) block.
func NewWorld(cfg Config) *World {
	if cfg.NUsers == 0 {
		cfg.NUsers = 10
	}
	if len(cfg.Denoms) == 0 {
		cfg.Denoms = DefaultDenoms()
	}
	home, err := os.MkdirTemp("", "verifhome")
	if err != nil {
		panic(err)
	}
	w := &World{Cfg: cfg, Home: home, Now: cfg.genesisTime(), Prices: map[string]math.LegacyDec{}, Silent: map[string]bool{}, byAddr: map[string]*Actor{},
		OkCount: map[string]int{}, FailCount: map[string]int{}, FailLogs: map[string]string{}}
	w.SubSecond = SubSecondJobs
	w.Gov = authtypes.NewModuleAddress(govtypes.ModuleName).String()
	if cfg.LevelDBDir != "" {
		db, err := dbm.NewGoLevelDB("application", cfg.LevelDBDir, nil)
		if err != nil {
			panic(err)
		}
		w.DB = db
	} else {
		w.DB = dbm.NewMemDB()
	}
	for i := 0; i < cfg.NUsers; i++ {
		w.Users = append(w.Users, MkActor(fmt.Sprintf("user%d", i)))
	}
	w.Feeder = MkActor("feeder")
	w.Feeders = []*Actor{w.Feeder}
	for i := 0; i < cfg.ExtraFeeders; i++ {
		w.Feeders = append(w.Feeders, MkActor(fmt.Sprintf("feeder%d", i+1)))
	}
	w.Voter = MkActor("voter")
	w.All = append(append([]*Actor{}, w.Users...), w.Feeders...)
	w.All = append(w.All, w.Voter)
	for _, a := range w.All {
		w.byAddr[a.S()] = a
	}
	for _, d := range cfg.Denoms {
		w.Prices[d.Display] = d.Price
	}
	w.App = w.newProbedApp(w.DB, cfg.Probes)
	gb, valSet, val := BuildGenesis(w.App, cfg, w.All, w.Feeders, w.Voter, w.Users[:2])
	w.GenesisBytes, w.ValSet, w.Val = gb, valSet, val
	w.ValOper = sdk.ValAddress(val.Address)
	if _, err := w.App.InitChain(w.InitChainReq()); err != nil {
		panic(fmt.Errorf("InitChain: %w", err))
	}
	if cfg.Probes {
		w.WrapModules(w.App)
	}
	w.RunBlock(0)
	return w
}

func (w *World) InitChainReq() *abci.RequestInitChain {
	return &abci.RequestInitChain{ChainId: ChainID, ConsensusParams: consensusParams, AppStateBytes: w.GenesisBytes, Time: time.Unix(w.Cfg.genesisTime(), 0).UTC()}
}

func (w *World) Close() {
	if w.DB != nil {
		w.DB.Close()
	}
	os.RemoveAll(w.Home)
}

func (w *World) ActorByAddr(addr string) *Actor { return w.byAddr[addr] }

// ReadCtx returns a discarded branch of the committed state with an infinite gas meter.
func (w *World) ReadCtx() sdk.Context {
	return ReadCtxOf(w.App, w.Height, w.Now, w.Nanos(w.Height))
}

// SubSecondJobs makes the block times of every world of this process carry a sub-second part, as
// the block times of a production chain always do (set by the job runner: two of every three
// instances; the remaining third keeps whole seconds). All of the repository's time rules work on
// whole unix seconds; code that compares at a finer precision is only exposed by such times.
var SubSecondJobs bool

// GovOwnedShareEntries: every other instance starts with a governance-owned registry entry for the
// vault's share token (set by the job runner).
var GovOwnedShareEntries bool

// Nanos is the sub-second part of the block time at a height: a fixed function of the height,
// never zero, and for one height in five within 2 ms of the next whole second.
func (w *World) Nanos(height int64) int64 {
	if !w.SubSecond {
		return 0
	}
	n := (height*618033989 + 123456789) % 1_000_000_000
	if height%5 == 3 {
		n = 998_000_001 + n%1_999_998
	}
	if n == 0 {
		n = 1
	}
	return n
}

func ReadCtxOf(a *app.ElysApp, height, now, nanos int64) sdk.Context {
	c := a.BaseApp.NewUncachedContext(false, cmtproto.Header{ChainID: ChainID, Height: height, Time: time.Unix(now, nanos).UTC()})
	cc, _ := c.CacheContext()
	return cc.WithGasMeter(storeInfiniteGas())
}

// Tx signs a transaction for actor ac (sequence is tracked locally and re-read after each block).
func (w *World) Tx(ac *Actor, msgs ...sdk.Msg) *TxRecord {
	return w.TxFee(ac, nil, msgs...)
}

func (w *World) TxFee(ac *Actor, fee sdk.Coins, msgs ...sdk.Msg) *TxRecord {
	raw, err := SignTx(w.App.TxConfig(), ChainID, ac.Priv, ac.Num, ac.Seq, fee, msgs...)
	if err != nil {
		panic(err)
	}
	ac.Seq++
	return &TxRecord{Raw: raw, Signer: ac, Msgs: msgs, Fee: fee, Num: ac.Num, Seq: ac.Seq - 1}
}

// FeedTx builds the default feeder's price transaction (nil if every asset is silent).
func (w *World) FeedTx() *TxRecord {
	fps := []oracletypes.FeedPrice{}
	names := make([]string, 0, len(w.Prices))
	for n := range w.Prices {
		names = append(names, n)
	}
	sort.Strings(names)
	for _, n := range names {
		if w.Silent[n] {
			continue
		}
		fps = append(fps, oracletypes.FeedPrice{Asset: n, Price: w.Prices[n], Source: "elys"})
	}
	if len(fps) == 0 {
		return nil
	}
	return w.Tx(w.Feeder, &oracletypes.MsgFeedMultiplePrices{Creator: w.Feeder.S(), FeedPrices: fps})
}

// RunBlock drives one block through FinalizeBlock and Commit, recording everything at the boundary.
func (w *World) RunBlock(dt int64, txs ...*TxRecord) *BlockRecord {
	if w.Dead {
		return nil
	}
	w.Height++
	w.Now += dt
	blk := &BlockRecord{Height: w.Height, Time: w.Now}
	raws := [][]byte{}
	w.curTxIdx = map[string]int{}
	w.curMsgCount = map[string]int{}
	for _, t := range txs {
		if t == nil {
			continue
		}
		w.curTxIdx[string(t.Raw)] = len(blk.Txs)
		blk.Txs = append(blk.Txs, t)
		raws = append(raws, t.Raw)
	}
	blk.Req = &abci.RequestFinalizeBlock{Height: w.Height, Time: time.Unix(w.Now, w.Nanos(w.Height)).UTC(), Txs: raws, NextValidatorsHash: w.ValSet.Hash(), ProposerAddress: w.Val.Address,
		DecidedLastCommit: abci.CommitInfo{Votes: []abci.VoteInfo{{Validator: abci.Validator{Address: w.Val.Address, Power: 1}, BlockIdFlag: cmtproto.BlockIDFlagCommit}}}}
	w.cur = blk
	res, err, stack := SafeFinalize(w.App, blk.Req)
	if err != nil {
		blk.Err, blk.Stack = "FinalizeBlock: "+err.Error(), stack
		w.Dead = true
	} else {
		blk.Res = res
		blk.AppHash = res.AppHash
		for i, r := range res.TxResults {
			blk.Txs[i].Result = r
			mt := blk.Txs[i].MsgType()
			if r.Code == 0 {
				w.OkCount[mt]++
			} else {
				w.FailCount[mt]++
				lg := r.Log
				if len(lg) > 300 {
					lg = lg[:300]
				}
				w.FailLogs[mt] = lg
			}
		}
		if w.CommitMu != nil {
			w.CommitMu.Lock()
		}
		err, stack := SafeCommit(w.App)
		if w.CommitMu != nil {
			w.CommitMu.Unlock()
		}
		if err != nil {
			blk.Err, blk.Stack = "Commit: "+err.Error(), stack
			w.Dead = true
		}
	}
	w.cur = nil
	w.Blocks = append(w.Blocks, blk)
	if w.KeepLog > 0 && len(w.Blocks) > w.KeepLog {
		w.Blocks = w.Blocks[len(w.Blocks)-w.KeepLog:]
	}
	if !w.Dead {
		w.RefreshSeqs()
	}
	for _, p := range w.probes {
		if pp, ok := p.(CommitProbe); ok {
			pp.AfterCommit(w, blk)
		}
	}
	return blk
}

// RefreshSeqs re-reads account numbers and sequences from committed state.
func (w *World) RefreshSeqs() {
	ctx := w.ReadCtx()
	for _, ac := range w.All {
		if acc := w.App.AccountKeeper.GetAccount(ctx, ac.Addr); acc != nil {
			ac.Num, ac.Seq = acc.GetAccountNumber(), acc.GetSequence()
		}
	}
}

// AddActor registers an extra key (must be funded by a transaction before it can sign).
func (w *World) AddActor(name string) *Actor {
	a := MkActor(name)
	w.All = append(w.All, a)
	w.byAddr[a.S()] = a
	return a
}

// SafeFinalize calls FinalizeBlock and converts a panic into an error with its stack.
func SafeFinalize(a *app.ElysApp, req *abci.RequestFinalizeBlock) (res *abci.ResponseFinalizeBlock, err error, stack string) {
	defer func() {
		if r := recover(); r != nil {
			err = fmt.Errorf("panic: %v", r)
			stack = string(debug.Stack())
		}
	}()
	res, err = a.FinalizeBlock(req)
	return
}

func SafeCommit(a *app.ElysApp) (err error, stack string) {
	defer func() {
		if r := recover(); r != nil {
			err = fmt.Errorf("panic: %v", r)
			stack = string(debug.Stack())
		}
	}()
	_, err = a.Commit()
	return
}

// Restart throws the app object away and opens a new one over the same database.
func (w *World) Restart() {
	w.App = w.newProbedApp(w.DB, w.Cfg.Probes)
	if w.Cfg.Probes {
		w.WrapModules(w.App)
	}
}
