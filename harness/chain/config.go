package chain

import (
	sdk "github.com/cosmos/cosmos-sdk/types"
	"github.com/elys-network/elys/app"
)

// The harness runs with the production bech32 prefixes (what cmd/elysd's InitSDKConfig sets).
func init() {
	p := app.AccountAddressPrefix
	config := sdk.GetConfig()
	config.SetBech32PrefixForAccount(p, p+"pub")
	config.SetBech32PrefixForValidator(p+"valoper", p+"valoperpub")
	config.SetBech32PrefixForConsensusNode(p+"valcons", p+"valconspub")
	config.Seal()
}
