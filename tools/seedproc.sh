#!/bin/bash
# tools/seedproc.sh <ID> <round> [extra props...] : confirm a delivered seeded change in its scratch
# worktree (/tmp/wt/<ID>) and run the property's quick check (plus extras) against it on a scratch copy.
ID="$1"; R="$2"; shift; shift
OUT=/tmp/seedout/$ID-$R
cd /verif
tools/seedconfirm.sh $OUT /tmp/wt/$ID > $OUT/confirm.log 2>&1
tools/seedrun2.sh $OUT/patch.diff quick $ID "$@" > $OUT/run.log 2>&1
echo "== $ID-$R"; grep -E "^(== |exit=|ok|FAIL|--- FAIL|PATCH)" $OUT/confirm.log | head -20; cat $OUT/run.log | grep -v "^WARNING conda" | head -30
