#!/usr/bin/env python3
"""Regenerates /verif/MANIFEST.json from the table below (kept in one place so it stays valid)."""
import json, os
V = os.path.dirname(os.path.dirname(os.path.abspath(__file__)))
props = [json.loads(l) for l in open(os.path.join(V, 'properties.jsonl'))]

TB = "real app (app.NewElysApp) driven through InitChain/FinalizeBlock/Commit with signed txs; trusted: the harness's readers (exported keeper getters on a discarded branch), SDK bank events, Go runtime; bounds as listed in the evidence file's assumptions"

CHECKS = {
 # id: (category, technique, level text, design_ref, note)
 "C01": ("exploration", "runtime invariant monitor at every commit over seeded hostile histories",
         "exact integer equality reserve == bank balance (+ tracked donations) for every pool x asset and DenomLiquidity == sum of reserves, evaluated after every committed block of mixed, adversarial multi-module histories; held-on-K-executions, not a proof", "6/C01", TB),
 "C02": ("exploration", "runtime invariant monitor + bank mint/burn event attribution",
         "exact equalities TotalShares == supply == sum committed, custody >= committed after every block; every share mint/burn bank event must sit in a join/exit/create/leveraged step that moved the pool's holdings", "6/C02", TB),
 "C06": ("exploration", "runtime invariant monitor at every commit and after every vault-touching tx",
         "exact equation TotalValue == cash + sum(Borrowed+InterestStacked-InterestPaid) after every block and inside blocks after each stablestake/leveragelp tx", "6/C06", TB),
 "C08": ("exploration", "runtime invariant monitor at every commit",
         "exact pool-total/position/commitment/counter equalities after every block; removed positions checked for residue", "6/C08", TB),
 "C09": ("exploration", "runtime invariant monitor at every commit",
         "exact per (pool, side, asset) aggregate == sum over MTPs, counter equality, reserve >= custody after every block", "6/C09", TB),
 "C11": ("exploration", "runtime invariant monitor at every commit",
         "exact accounted-pool equation after every block of histories that end blocks on perpetual ops and on AMM ops", "6/C11", TB),
 "C12": ("exploration", "runtime invariant monitor + reference lock-up ledger over per-step state diffs",
         "exact TotalCommitted == sum over accounts per denom (known defect matched by its exact arithmetic relation to the monitor's own uncommit ledger), custody >= committed + claimed, committed >= unexpired reference locks after every owner-signed tx", "6/C12", TB),
 "C13": ("exploration", "runtime solvency / flow / monotonicity monitor at every tx and block-phase boundary + drain test",
         "exact solvency inequality per reward denom after every block; per block credited <= collected; no holder's claimable reward grows outside the distribution step and there only by acc-delta x shares committed at that moment; every claim of the final drain succeeds", "6/C13", TB),
 "C15": ("exploration", "runtime supply monitor with bank mint/burn event attribution",
         "per denom supply delta after every block explained by, and every mint/burn event checked against, the rule of its denom class (external: none; native: vesting release / burner, gov, slashing; shares: with matching deposit move); sum of balances == supply", "6/C15", TB),
 "C18": ("fault_enumeration", "fault-schedule enumeration over real ABCI blocks + substitution-twin differential",
         "every block of every base history x enumerated fault schedule (oracle outages, block-time gaps, every module's validation-accepted parameter edges through real governance) must finalize and commit; a twin replica in which failed txs are replaced by a trivially failing tx must reach the same AppHash after every block", "6/C18", TB),
 "C19": ("fault_enumeration", "differential replicas with restart and crash-before-commit injected at every height, SIGKILL injection into a replaying process over LevelDB, Go race detector over block production with concurrent CheckTx / Simulate / Query (both tiers)",
         "primary (probed) vs un-probed replica vs replica restarted after every height vs replica crashed between FinalizeBlock and Commit at every height: AppHash, tx results and block-event multisets equal after every block; a separate replaying process killed with SIGKILL at arbitrary moments restarts at a reported height with the primary's hash and reproduces every later hash; a -race build of the application producing blocks while goroutines run CheckTx, Simulate of fourteen message types and gRPC queries (one instance quick, three longer thorough)", "6/C19", TB),
 "C14": ("exploration", "pre-message / post-tx probe monitor against an independent linear-schedule reference",
         "every successful vest / claim / cancel / vest-now of an observed account is compared (entries, claimable Eden, uelys balance before vs after) with the monitor's own schedule floor(Total*min(h-start,N)/N); conservation Eden in == released + returned + still vesting; every claim by an account with entries must succeed (judged from the block log so panics count)", "6/C14", TB),
 "C16": ("exploration", "reference-model monitor (price map + feeder set) compared online at commits and pre-message probes",
         "every GetAssetPrice / GetAssetPriceFromDenom answer for an adversarial name set is compared with a reference map built from the observed successful feeds and the end-block expiry rule; the whole price store must equal the reference after every block; every feed is judged against the reference feeder set", "6/C16", TB),
 "C04": ("exploration", "settlement-pattern monitor over balance snapshots at pre-message, post-tx and around the AMM end-blocker",
         "every attributable swap request (all three message types, 1- and 2-hop, foreign recipients, batches with opposite directions and limits) must show either the executed pattern (exact debit / debit <= max, credit >= min / output, no unstated debit) or no movement at all; nothing moves at acceptance time; the transient queue is empty after the batch; idle blocks move nothing", "6/C04", TB),
 "C10": ("exploration", "boundary-diff monitor + entry-by-entry replay of close-positions lists and of the leveragelp sweep on a discarded branch",
         "every change of a position by a non-owner (bot message or chain sweep) must be justified by health <= safety factor or a reached stop-loss / take-profit measured immediately before that entry's turn; un-named and unjustified positions and their owners' balances stay as they were; every successful open (also via order execution) leaves stored and recomputed health above the safety factor", "6/C10", TB),
 "C20": ("exploration", "escrow-ledger monitor over pre-message / post-tx snapshots of every order, escrow and owner wallet",
         "around every tradeshield transaction of anyone: wallet+escrow per owner and denom conserved (a position opened by an executed order accounts for its collateral), un-named and un-triggered orders byte-identical (trigger evaluated by the monitor per order type), only owners update / cancel, failed executions leave no position behind, new escrows hold exactly the order amount", "6/C20", TB),
 "C17": ("exploration", "exhaustive message-registry x sender-class sweep with store-digest differential + substitution twin through real blocks",
         "every governance-gated message type registered by the running app is called, on discarded branches of several rich states, with the signer field set to every sender of every class (users, pool creator, feeder, validator operator, every module account, pool addresses): it must fail and the digest of all stores must not change (positive control: governance address is not rejected the same way); the same messages and owner-scoped attacks are also sent through real blocks next to a substitution twin", "6/C17", TB),
 "C03": ("exploration", "generated-input loop over the real pricing functions against an exact integer reference + value-flow monitor around the swap batch",
         "tens of thousands of generated constant-product and oracle pools per run through the real Pool.SwapOutAmtGivenIn / SwapInAmtGivenOut compared with the exact weighted-product inequality in big integers (allowances exactly the property's), round-trip and split-trade derived checks, value-in >= value-out for oracle pools; on the full app every AMM / masterchef end-blocker is checked for an oracle pool paying away value", "6/C03", "pure part: only the two keeper interfaces the pool methods take are faked (oracle price table, accounted balances); " + TB),
 "C05": ("exploration", "generated-input loop over the real join / exit arithmetic against exact integer references + per-share value monitor around every join / exit",
         "generated pools through the real Pool.JoinPool / ExitPool: per-asset and value-function per-share inequalities, join-then-exit round trips in all form combinations, positive reserves and consistent book after every exit; on the full app the per-share value of the remaining liquidity around every join / exit (also those of leveraged opens / closes) and wallet round trips of an observed LP", "6/C05", "pure part: only the two keeper interfaces the pool methods take are faked; " + TB),
 "C07": ("exploration", "rate-monotonicity / fair-conversion / cap monitor at every tx and block-phase boundary (exact rationals)",
         "redemption rate never falls between consecutive observation points beyond one conversion's rounding; every bond / unbond judged against the fair conversion at the pre-message rate; other holders' redeemable value kept; every successful borrow within the 90 % cap on the pre-message state; deposit-then-immediate-withdrawal pairs", "6/C07", TB),
}

m = {"version": 1, "setup_cmd": "./setup.sh",
     "hooks": {"guard": "verif", "enable": "go build -tags verif (done by ./check on every run, against /repo's working tree)",
               "baseline_off_cmd": "cd /repo && go test -mod=mod -vet=off -count=1 -timeout 25m ./...",
               "source_commits": [], "add_only": True},
     "engines": [{"name": "verif-harness", "path": "harness", "serves_properties": sorted(CHECKS.keys()),
                  "kind_free_text": "Go module linking the real Elys app; ABCI block driver, in-process probes (router circuit breaker, post handler, module-manager wrappers), monitors, seeded workload generators"}],
     "checks": [], "not_applicable": [],
     "notes": "Technique family: runtime monitoring. Exit 0 = held on everything explored, 1 = VIOLATION line, 2 = INCONCLUSIVE line (harness could not build / coverage floor missed / watchdog). See DESIGN.md."}
for p in props:
    i = p['id']
    if i in CHECKS:
        cat, tech, text, ref, note = CHECKS[i]
        m['checks'].append({"property_id": i, "quick_cmd": f"./check {i} quick", "thorough_cmd": f"./check {i} thorough",
                            "evidence_file": f"/verif/evidence/{i}.json", "replay_cmd_template": ".bin/verif replay {path}", "engine": "verif-harness",
                            "level_claimed": {"category": cat, "text": text, "design_ref": "DESIGN.md section " + ref},
                            "level_note": note, "technique": tech})
    else:
        m['not_applicable'].append({"property_id": i, "reason": "check under construction in this build phase; not claimed until its monitor has been validated (see DESIGN.md)"})
json.dump(m, open(os.path.join(V, 'MANIFEST.json'), 'w'), indent=1)
print("checks:", len(m['checks']), "not_applicable:", len(m['not_applicable']))
