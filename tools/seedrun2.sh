#!/bin/bash
# tools/seedrun2.sh <patch.diff> <tier> <PROP>... : like seedrun.sh, but without touching /repo or
# /verif: the change is applied to a scratch worktree of /repo, the harness is copied next to it
# with its replace directive pointing there, the named checks run with a scratch VERIF_DIR.
# (For use while background sweeps are building from /repo.) Everything is removed afterwards.
export GOFLAGS=-mod=mod GOPROXY=off GOSUMDB=off GOTOOLCHAIN=local
P="$1"; TIER="$2"; shift; shift
T=$(mktemp -d /tmp/seedrun2.XXXXXX)
trap 'git -C /repo worktree remove --force $T/repo 2>/dev/null; rm -rf $T' EXIT
git -C /repo worktree add --detach $T/repo HEAD >/dev/null 2>&1 || { echo "worktree failed"; exit 2; }
git -C $T/repo apply "$P" || { echo "patch does not apply"; exit 2; }
cp -r /verif/harness $T/harness
mkdir -p $T/v/evidence $T/v/replays $T/v/.bin
cp /verif/known_findings.json /verif/properties.jsonl $T/v/
( cd $T/harness && go mod edit -replace github.com/elys-network/elys=$T/repo && cp $T/repo/go.sum go.sum && go build -tags verif -o $T/v/.bin/verif ./cmd/verif ) || { echo "harness does not build against the change"; exit 2; }
for p in "$@"; do
  out=$(VERIF_NORACE=1 VERIF_DIR=$T/v $T/v/.bin/verif run $p $TIER 2>&1); e=$?
  echo "--- $p exit=$e"
  echo "$out" | grep -E "^(VIOLATION|INCONCLUSIVE)" -A2 | cut -c1-330 | sed "s#$T/v#/verif#" | head -${SEED_LINES:-9}
  echo "$out" | tail -1 | cut -c1-160
done
