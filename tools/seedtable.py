#!/usr/bin/env python3
"""tools/seedtable.py: adds the archived seeded changes that are missing from DESIGN.md section 10b's table
(rows of existing ids are kept as they are); prints per-round counts of first-run misses."""
import json, os, re, glob
p = '/verif/DESIGN.md'
L = open(p).read().split('\n')
hdr = next(i for i, l in enumerate(L) if l.startswith('| id | files | change |'))
end = hdr + 2
while end < len(L) and L[end].startswith('| '):
    end += 1
rows = {}
for l in L[hdr + 2:end]:
    rows[l.split('|')[1].strip()] = l
for d in sorted(glob.glob('/verif/seeded/*/meta.json')):
    sid = os.path.basename(os.path.dirname(d))
    if sid in rows:
        continue
    m = json.load(open(d))
    files = ', '.join('`%s`' % re.sub(r'^x/', '', f) for f in m.get('files', []))
    s = m.get('summary', '').replace('|', '/').replace('\n', ' ')
    if len(s) > 230:
        s = s[:230] + '…'
    rows[sid] = '| %s | %s | %s | %s | %s |' % (sid, files, s, ', '.join(m.get('caught_by', [])), m.get('detection_note', '').replace('|', '/'))
L[hdr + 2:end] = [rows[k] for k in sorted(rows)]
open(p, 'w').write('\n'.join(L))
per = {}
for k, l in rows.items():
    m = re.match(r'^C\d\d-([a-z])$', k)
    if not m:
        continue
    r = m.group(1)
    per.setdefault(r, [0, 0])
    per[r][1] += 1
    if 'missed at first' in l:
        per[r][0] += 1
print({r: '%d of %d' % tuple(v) for r, v in sorted(per.items())}, 'total', sum(v[1] for v in per.values()), 'missed', sum(v[0] for v in per.values()))
