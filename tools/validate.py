#!/opt/veriftools/pyvenv/bin/python
import json, jsonschema, sys, glob
jsonschema.validate(json.load(open('/verif/MANIFEST.json')), json.load(open('/root/.vp/MANIFEST.schema.json')))
es = json.load(open('/root/.vp/EVIDENCE.schema.json'))
n = 0
for f in sorted(glob.glob('/verif/evidence/*.json')):
    jsonschema.validate(json.load(open(f)), es); n += 1
print('manifest valid; evidence files valid:', n)
