#!/bin/bash
# tools/runall.sh [quick|thorough] : runs every registered check once, prints one line each.
cd "$(dirname "$0")/.."
TIER="${1:-quick}"
rc=0
for p in $(python3 -c "import json;print(' '.join(c['property_id'] for c in json.load(open('MANIFEST.json'))['checks']))"); do
  out=$(./check $p $TIER 2>&1); e=$?
  echo "$out" | grep -E "^(VIOLATION|INCONCLUSIVE|KNOWN-FINDING)" | cut -c1-220
  echo "$out" | tail -1 | cut -c1-200
  [ $e -ne 0 ] && rc=1
done
exit $rc
