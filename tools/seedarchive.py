#!/usr/bin/env python3
"""tools/seedarchive.py <out-dir> <seeded-id> <caught_by csv> <note>: copies a confirmed seeded change into /verif/seeded/<id>/."""
import json, os, shutil, sys
out, sid, caught, note = sys.argv[1], sys.argv[2], sys.argv[3], sys.argv[4]
d = os.path.join('/verif/seeded', sid)
os.makedirs(d, exist_ok=True)
shutil.copy(os.path.join(out, 'patch.diff'), os.path.join(d, 'patch.diff'))
shutil.copy(os.path.join(out, 'demo_test.go'), os.path.join(d, 'demo_test.go.txt'))
m = json.load(open(os.path.join(out, 'meta.json')))
m['confirmed_by_framework_author'] = {"how": "tools/seedconfirm.sh in a scratch worktree: demo passes without the change, fails with it; existing tests of the touched modules pass with it (the authoring agent ran the whole suite)", "checks_run": "tools/seedrun.sh <patch> quick <checks> (applies to /repo, runs, reverts)"}
m['caught_by'] = [c for c in caught.split(',') if c]
m['detection_note'] = note
m['demo_file'] = 'demo_test.go.txt (rename to the path in demo_path to run it)'
json.dump(m, open(os.path.join(d, 'meta.json'), 'w'), indent=1)
print('archived', d, 'caught_by', m['caught_by'])
