#!/bin/bash
# tools/seedrun.sh <patch.diff> <tier> <PROP>... : applies a seeded change to /repo, runs the
# named checks, and ALWAYS reverts /repo afterwards. Evidence files are restored from git.
P="$1"; TIER="$2"; shift; shift
cd /repo && git diff --quiet || { echo "/repo not clean"; exit 2; }
git -C /repo apply "$P" || { echo "patch does not apply"; exit 2; }
trap 'git -C /repo checkout -- . ; cd /verif && git checkout -- evidence 2>/dev/null' EXIT
cd /verif
for p in "$@"; do
  out=$(./check $p $TIER 2>&1); e=$?
  echo "--- $p exit=$e"
  echo "$out" | grep -E "^(VIOLATION|INCONCLUSIVE)" -A2 | cut -c1-330 | head -${SEED_LINES:-9}
  echo "$out" | tail -1 | cut -c1-160
done
