#!/bin/bash
# tools/seedconfirm.sh <out-dir> <worktree> : confirms a seeded change in a scratch worktree:
# demo passes without the change, fails with it; touched packages' existing tests pass with it.
export GOFLAGS=-mod=mod GOPROXY=off GOSUMDB=off GOTOOLCHAIN=local
OUT="$1"; WT="$2"
cd "$WT" || exit 2
git checkout -q -- . && git clean -fdq
DEMO=$(python3 -c "import json;print(json.load(open('$OUT/meta.json'))['demo_path'])")
CMD=$(python3 -c "import json;print(json.load(open('$OUT/meta.json'))['demo_cmd'])")
cp "$OUT/demo_test.go" "$DEMO"
echo "== demo WITHOUT change"; (eval "$CMD") > /tmp/sc.$$.out 2>&1; echo "exit=$?"; tail -3 /tmp/sc.$$.out
git apply "$OUT/patch.diff" || { echo "PATCH DOES NOT APPLY"; exit 2; }
echo "== demo WITH change"; (eval "$CMD") > /tmp/sc.$$.out 2>&1; echo "exit=$?"; grep -E "^(--- FAIL|FAIL|ok)" /tmp/sc.$$.out | head -5
rm -f "$DEMO"
PKGS=$(git diff --name-only | xargs -n1 dirname | sort -u | sed 's#^#./#' | sed 's#/[a-z_]*$#/...#' | sort -u | tr '\n' ' ')
echo "== existing tests of touched modules WITH change: $PKGS"
go test -vet=off -count=1 $PKGS 2>&1 | grep -v "no test files" | grep -E "^(FAIL|ok|---)" | head -20
git checkout -q -- . && git clean -fdq
