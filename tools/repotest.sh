#!/bin/bash
# tools/repotest.sh <go package patterns...>: runs repo tests (hooks off) and fails loudly on FAIL.
export GOFLAGS=-mod=mod GOPROXY=off GOSUMDB=off GOTOOLCHAIN=local
cd /repo && go test -vet=off -count=1 "$@" 2>&1 | grep -v "no test files" > /tmp/repotest.out
if grep -q "^FAIL\|^--- FAIL\|panic:" /tmp/repotest.out; then echo "REPO TESTS FAILED"; grep -n "FAIL\|panic:" /tmp/repotest.out | head -20; exit 1; fi
echo "repo tests ok: $(grep -c '^ok' /tmp/repotest.out) packages"
